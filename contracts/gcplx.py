"""Shape-generic contracts for qucumber.utils.cplx (property C15): complex arithmetic entry for entry, for every size."""
import z3

from qv import astvc, gen as G
from .generic import GCase, Raises, cbuild, cmul, cconj, cel


def cases(cplx):
    n, m, k, p = G.dim("n"), G.dim("m"), G.dim("k"), G.dim("p")
    n2, m2 = G.dim("n2"), G.dim("m2")
    out = []

    def add(*a, **kw):
        out.append(GCase(*a, **kw))

    shapes = {"scalar": (), "vector": (n,), "matrix": (n, m), "rank3": (n, m, k)}
    # ---- construction / parts
    for nm, s in shapes.items():
        add("make_complex(x,y)[%s]" % nm, [("x", s, "real"), ("y", s, "real")], lambda x, y: cplx.make_complex(x, y),
            lambda x, y, s=s: cbuild(s, lambda *ix: (x(*ix), y(*ix))))
        add("make_complex(x)[%s]" % nm, [("x", s, "real")], lambda x: cplx.make_complex(x),
            lambda x, s=s: cbuild(s, lambda *ix: (x(*ix), 0)))
        add("real[%s]" % nm, [("x", (2,) + s, "real")], lambda x: cplx.real(x), lambda x, s=s: G.build(s, lambda *ix: x(0, *ix)))
        add("imag[%s]" % nm, [("x", (2,) + s, "real")], lambda x: cplx.imag(x), lambda x, s=s: G.build(s, lambda *ix: x(1, *ix)))
        add("conj[%s]" % nm, [("x", (2,) + s, "real")], lambda x: cplx.conj(x),
            lambda x, s=s: cbuild(s, lambda *ix: cconj(cel(x, *ix))))
        add("absolute_value[%s]" % nm, [("x", (2,) + s, "real")], lambda x: cplx.absolute_value(x),
            lambda x, s=s: G.build(s, lambda *ix: G.fn("sqrt", x(0, *ix) * x(0, *ix) + x(1, *ix) * x(1, *ix))))
        # elementwise product / quotient of equal shapes
        add("elementwise_mult[%s]" % nm, [("x", (2,) + s, "real"), ("y", (2,) + s, "real")], lambda x, y: cplx.elementwise_mult(x, y),
            lambda x, y, s=s: cbuild(s, lambda *ix: cmul(cel(x, *ix), cel(y, *ix))))

        def div_spec(x, y, s=s):
            def f(*ix):
                a, b = cel(x, *ix), cel(y, *ix)
                num = cmul(a, cconj(b))
                den = G.fn("inv", b[0] * b[0] + b[1] * b[1])
                return (num[0] * den, num[1] * den)
            return cbuild(s, f)
        add("elementwise_division[%s]" % nm, [("x", (2,) + s, "real"), ("y", (2,) + s, "real")],
            lambda x, y: cplx.elementwise_division(x, y), div_spec)
        # scalar (x of shape (2,)) times tensor, and tensor divided by scalar
        add("scalar_mult(scalar,%s)" % nm, [("x", (2,), "real"), ("y", (2,) + s, "real")], lambda x, y: cplx.scalar_mult(x, y),
            lambda x, y, s=s: cbuild(s, lambda *ix: cmul(cel(x), cel(y, *ix))))

        def sdiv_spec(x, y, s=s):
            def f(*ix):
                a, b = cel(x, *ix), cel(y)
                num = cmul(a, cconj(b))
                den = G.fn("inv", b[0] * b[0] + b[1] * b[1])
                return (num[0] * den, num[1] * den)
            return cbuild(s, f)
        add("scalar_divide(%s,scalar)" % nm, [("x", (2,) + s, "real"), ("y", (2,), "real")], lambda x, y: cplx.scalar_divide(x, y), sdiv_spec)

        def inv_spec(x, s=s):
            def f(*ix):
                a = cel(x, *ix)
                den = G.fn("inv", a[0] * a[0] + a[1] * a[1])
                return (a[0] * den, -a[1] * den)
            return cbuild(s, f)
        add("inverse[%s]" % nm, [("x", (2,) + s, "real")], lambda x: cplx.inverse(x), inv_spec)
    # every broadcast combination torch accepts for the element-wise product (neither operand need have the result's shape)
    for nm, sx, sy, so, ax, ay in (
        ("column,row", (n, 1), (1, m), (n, m), lambda i, j: (i, 0), lambda i, j: (0, j)),
        ("row,column", (1, m), (n, 1), (n, m), lambda i, j: (0, j), lambda i, j: (i, 0)),
        ("vector,matrix", (m,), (n, m), (n, m), lambda i, j: (j,), lambda i, j: (i, j)),
        ("matrix,vector", (n, m), (m,), (n, m), lambda i, j: (i, j), lambda i, j: (j,)),
        ("matrix,column", (n, m), (n, 1), (n, m), lambda i, j: (i, j), lambda i, j: (i, 0)),
        ("unit,matrix", (1, 1), (n, m), (n, m), lambda i, j: (0, 0), lambda i, j: (i, j)),
    ):
        for fname in ("scalar_mult", "elementwise_mult"):
            add("%s[%s]" % (fname, nm), [("x", (2,) + sx, "real"), ("y", (2,) + sy, "real")],
                lambda x, y, fname=fname: getattr(cplx, fname)(x, y),
                lambda x, y, so=so, ax=ax, ay=ay: cbuild(so, lambda i, j: cmul(cel(x, *ax(i, j)), cel(y, *ay(i, j)))))
    add("scalar_mult[rank3 (n,1,k), matrix (m,1)]", [("x", (2, n, 1, k), "real"), ("y", (2, m, 1), "real")],
        lambda x, y: cplx.scalar_mult(x, y),
        lambda x, y: cbuild((n, m, k), lambda i, j, q: cmul(cel(x, i, 0, q), cel(y, j, 0))))

    def div_rule(x, y):
        vc = astvc.VC.cur()
        same = z3.And(n.z == n2.z, m.z == m2.z)
        if not vc._sat(z3.Not(same)):
            G.same_dim(n, n2), G.same_dim(m, m2)

            def f(i, j):
                a, b = cel(x, i, j), cel(y, i, j)
                num = cmul(a, cconj(b))
                den = G.fn("inv", b[0] * b[0] + b[1] * b[1])
                return (num[0] * den, num[1] * den)
            return cbuild((n, m), f)
        if not vc._sat(same):
            return Raises(ValueError)
        raise G.Unmodelled("the code did not decide whether the operand shapes are equal")

    # elementwise_division rejects operands of different shapes (decided per path: both outcomes of n == n2 are explored)
    add("elementwise_division[shapes may differ]", [("x", (2, n, m), "real"), ("y", (2, n2, m2), "real")],
        lambda x, y: cplx.elementwise_division(x, y), div_rule)
    # ---- products
    add("matmul[matrix,matrix]", [("x", (2, n, k), "real"), ("y", (2, k, m), "real")], lambda x, y: cplx.matmul(x, y),
        lambda x, y: cbuild((n, m), lambda i, j: (G.sum_over(k, lambda q: x(0, i, q) * y(0, q, j) - x(1, i, q) * y(1, q, j)),
                                                G.sum_over(k, lambda q: x(0, i, q) * y(1, q, j) + x(1, i, q) * y(0, q, j)))))
    add("matmul[matrix,vector]", [("x", (2, n, k), "real"), ("y", (2, k), "real")], lambda x, y: cplx.matmul(x, y),
        lambda x, y: cbuild((n,), lambda i: (G.sum_over(k, lambda q: x(0, i, q) * y(0, q) - x(1, i, q) * y(1, q)),
                                            G.sum_over(k, lambda q: x(0, i, q) * y(1, q) + x(1, i, q) * y(0, q)))))
    add("matmul[batch of vectors,matrix]", [("x", (2, p, k), "real"), ("y", (2, k, m), "real")], lambda x, y: cplx.matmul(x, y),
        lambda x, y: cbuild((p, m), lambda i, j: (G.sum_over(k, lambda q: x(0, i, q) * y(0, q, j) - x(1, i, q) * y(1, q, j)),
                                                G.sum_over(k, lambda q: x(0, i, q) * y(1, q, j) + x(1, i, q) * y(0, q, j)))))
    add("inner_prod[vector,vector]", [("x", (2, n), "real"), ("y", (2, n), "real")], lambda x, y: cplx.inner_prod(x, y),
        lambda x, y: cbuild((), lambda: (G.sum_over(n, lambda q: x(0, q) * y(0, q) + x(1, q) * y(1, q)),
                                        G.sum_over(n, lambda q: x(0, q) * y(1, q) - x(1, q) * y(0, q)))))
    out[-1].canary_spec = lambda x, y: cbuild((), lambda: (G.sum_over(n, lambda q: x(0, q) * y(0, q) + x(1, q) * y(1, q)),
                                                          G.sum_over(n, lambda q: x(1, q) * y(0, q) - x(0, q) * y(1, q))))
    add("inner_prod[scalar,scalar]", [("x", (2,), "real"), ("y", (2,), "real")], lambda x, y: cplx.inner_prod(x, y),
        lambda x, y: cbuild((), lambda: cmul(cconj(cel(x)), cel(y))))
    add("inner_prod[matrix,matrix] is rejected", [("x", (2, n, m), "real"), ("y", (2, n, m), "real")], lambda x, y: cplx.inner_prod(x, y),
        lambda x, y: Raises(ValueError))
    add("outer_prod[vector,vector]", [("x", (2, n), "real"), ("y", (2, m), "real")], lambda x, y: cplx.outer_prod(x, y),
        lambda x, y: cbuild((n, m), lambda i, j: cmul(cel(x, i), cconj(cel(y, j)))))
    add("outer_prod[matrix,vector] is rejected", [("x", (2, n, m), "real"), ("y", (2, m), "real")], lambda x, y: cplx.outer_prod(x, y),
        lambda x, y: Raises(ValueError))
    add("norm_sqr[vector]", [("x", (2, n), "real")], lambda x: cplx.norm_sqr(x),
        lambda x: G.build((), lambda: G.sum_over(n, lambda q: x(0, q) * x(0, q) + x(1, q) * x(1, q))))
    add("norm[vector]", [("x", (2, n), "real")], lambda x: cplx.norm(x),
        lambda x: G.build((), lambda: G.fn("sqrt", G.sum_over(n, lambda q: x(0, q) * x(0, q) + x(1, q) * x(1, q)))))
    # ---- conjugate: conjugate transpose for matrices, plain conjugate below rank 2
    add("conjugate[matrix]", [("x", (2, n, m), "real")], lambda x: cplx.conjugate(x),
        lambda x: cbuild((m, n), lambda i, j: cconj(cel(x, j, i))))
    add("conjugate[vector]", [("x", (2, n), "real")], lambda x: cplx.conjugate(x), lambda x: cbuild((n,), lambda i: cconj(cel(x, i))))
    # ---- einsum with the part switches
    for eq, sx, sy, so, f in (
        ("ij,jk->ik", (n, k), (k, m), (n, m), lambda x, y, i, j: ("sum", k, lambda q: (cel(x, i, q), cel(y, q, j)))),
        ("i,i->", (n,), (n,), (), lambda x, y: ("sum", n, lambda q: (cel(x, q), cel(y, q)))),
        ("ij,j->i", (n, m), (m,), (n,), lambda x, y, i: ("sum", m, lambda q: (cel(x, i, q), cel(y, q)))),
        ("ab,cd->acbd", (n, m), (k, p), (n, k, m, p), lambda x, y, a, c, b, d: ("one", None, lambda: (cel(x, a, b), cel(y, c, d)))),
    ):
        def espec(x, y, part, so=so, f=f):
            def g(*ix):
                kind, d, h = f(x, y, *ix)
                if kind == "one":
                    u, v = h()
                    return cmul(u, v)
                re = G.sum_over(d, lambda q: cmul(*h(q))[0])
                im = G.sum_over(d, lambda q: cmul(*h(q))[1])
                return (re, im)
            if part == "both":
                return cbuild(so, g)
            return G.build(so, lambda *ix: g(*ix)[0 if part == "real" else 1])
        add("einsum(%s)" % eq, [("x", (2,) + sx, "real"), ("y", (2,) + sy, "real")], lambda x, y, eq=eq: cplx.einsum(eq, x, y),
            lambda x, y, espec=espec: espec(x, y, "both"))
        add("einsum(%s, imag_part=False)" % eq, [("x", (2,) + sx, "real"), ("y", (2,) + sy, "real")],
            lambda x, y, eq=eq: cplx.einsum(eq, x, y, imag_part=False), lambda x, y, espec=espec: espec(x, y, "real"))
        add("einsum(%s, real_part=False)" % eq, [("x", (2,) + sx, "real"), ("y", (2,) + sy, "real")],
            lambda x, y, eq=eq: cplx.einsum(eq, x, y, real_part=False), lambda x, y, espec=espec: espec(x, y, "imag"))
    # the index letters are the caller's choice
    for eq in ("xy,yz->xz", "AB,BC->AC", "rs,st->rt", "uv,vw->uw", "pq,qo->po", "mn,nl->ml", "za,ab->zb", "gh,hf->gf", "cd,de->ce", "XY,YZ->XZ", "ij, jk -> ik"):
        add("einsum(index letters %s)" % eq, [("x", (2, n, k), "real"), ("y", (2, k, m), "real")], lambda x, y, eq=eq: cplx.einsum(eq, x, y),
            lambda x, y: cbuild((n, m), lambda i, j: (G.sum_over(k, lambda q: cmul(cel(x, i, q), cel(y, q, j))[0]), G.sum_over(k, lambda q: cmul(cel(x, i, q), cel(y, q, j))[1]))))
    add("einsum(no part requested)", [("x", (2, n), "real"), ("y", (2, n), "real")],
        lambda x, y: cplx.einsum("i,i->", x, y, real_part=False, imag_part=False), lambda x, y: None)
    # ---- out= buffer of scalar_mult
    add("scalar_mult(x,y,out=buffer)", [("x", (2, n), "real"), ("y", (2, n), "real"), ("o", (2, n), "real")],
        lambda x, y, o: (lambda r: (r, o))(cplx.scalar_mult(x, y, out=o)),
        lambda x, y, o: (lambda v: (v, v))(cbuild((n,), lambda i: cmul(cel(x, i), cel(y, i)))), mutates=("o",))
    return out
