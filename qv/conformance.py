"""Conformance sampling of the assumed primitive contracts (qv/symtensor.py) against the real torch / numpy.

Every model is called on SymTensors holding exact small rationals (so the algebra evaluates to constants) and the
real primitive on the same float64 data; values, shapes and — for view / in-place / out= primitives — aliasing
are compared.  This does not prove the models; it catches an unsound model before it voids proofs.  Run once per
check (about a second); any mismatch makes the check exit 3.
"""
import itertools

import numpy as np
import torch
import torch.nn.functional as F

from . import alg
from . import symtensor as st


ENV = {}
_N = [0]


def _sym(t):
    """A SymTensor of fresh symbols (real parameters; strictly positive data become positive opaque atoms) whose
    values in ENV are the entries of t: the model is exercised symbolically and evaluated afterwards."""
    a = np.empty(tuple(t.shape), dtype=object)
    pos = bool((t > 0).all()) and t.numel() > 0
    for k in np.ndindex(*a.shape):
        _N[0] += 1
        nm = "c%d" % _N[0]
        ENV[nm] = float(t[k])
        a[k] = alg.uf(nm, "pos") if pos else alg.par(nm)
    return st.SymTensor(a)


def _val(x):
    """SymTensor / tensor / number -> float ndarray (symbols evaluated in ENV)"""
    if isinstance(x, st.SymTensor):
        a = x._arr
        out = np.empty(a.shape, dtype=float)
        for k in np.ndindex(*a.shape):
            v = alg.evalf(a[k], ENV)
            out[k] = float(v.real if isinstance(v, complex) else v)
        return out
    if isinstance(x, torch.Tensor):
        return x.detach().numpy().astype(float)
    if isinstance(x, st.SymFloat):
        v = alg.evalf(x.p, ENV)
        return np.asarray(float(v.real if isinstance(v, complex) else v))
    if isinstance(x, np.ndarray) and x.dtype == object:
        out = np.empty(x.shape, dtype=float)
        for k in np.ndindex(*x.shape):
            v = alg.evalf(alg.to_P(x[k]), ENV)
            out[k] = float(v.real if isinstance(v, complex) else v)
        return out
    if isinstance(x, (tuple, list)):
        return [_val(y) for y in x]
    return np.asarray(x, dtype=float)


def _close(a, b):
    if isinstance(a, list):
        return isinstance(b, list) and len(a) == len(b) and all(_close(x, y) for x, y in zip(a, b))
    return a.shape == b.shape and np.allclose(a, b, rtol=1e-10, atol=1e-12)


def cases(rng):
    R = lambda *s: torch.tensor(rng.integers(-3, 4, size=s) / 2.0, dtype=torch.double)
    P = lambda *s: torch.tensor(rng.integers(1, 5, size=s) / 4.0, dtype=torch.double)      # positive
    out = []
    add = lambda name, f, *args: out.append((name, f, args))
    a, b, m, v = R(2, 3), R(2, 3), R(3, 4), R(3)
    add("add", lambda x, y: x + y, a, b)
    add("sub", lambda x, y: x - y, a, b)
    add("mul", lambda x, y: x * y, a, b)
    add("div", lambda x, y: x / y, a, P(2, 3))
    add("neg", lambda x: -x, a)
    add("rsub", lambda x: 1.5 - x, a)
    add("rtruediv", lambda x: 2.0 / x, P(2, 3))
    add("pow", lambda x: x ** 2, a)
    add("broadcast add", lambda x, y: x + y, a, v)
    add("matmul mm", lambda x, y: torch.matmul(x, y), a, m)
    add("matmul mv", lambda x, y: torch.matmul(x, y), a, v)
    add("matmul vm", lambda x, y: torch.matmul(x, y), v, m)
    add("matmul batched", lambda x, y: torch.matmul(x, y), R(2, 2, 3), R(2, 3, 2))
    add("mv", lambda x, y: torch.mv(x, y), a, v)
    add("dot", lambda x, y: torch.dot(x, y), v, R(3))
    add("ger", lambda x, y: torch.ger(x, y), v, R(2))
    add("linear", lambda x, w, bb: F.linear(x, w, bb), a, R(4, 3), R(4))
    add("linear nobias", lambda x, w: F.linear(x, w), a, R(4, 3))
    add("linear batched", lambda x, w, bb: F.linear(x, w, bb), R(2, 2, 3), R(4, 3), R(4))
    for eq, s1, s2 in (("ib,ibg->bg", (2, 3), (2, 3, 2)), ("b,bg->g", (3,), (3, 2)), ("ijb,ijbg->bg", (2, 2, 3), (2, 2, 3, 2)), ("ab,cd->acbd", (2, 3), (3, 2)),
                       ("...j,...k->...jk", (2, 3), (2, 4)), ("...v,av,...a->...", (2, 3), None), ("c...j,...k->c...jk", (2, 2, 3), (2, 4))):
        if s2 is None:
            add("einsum " + eq, lambda x, y, z, eq=eq: torch.einsum(eq, x, y, z), R(2, 3), R(4, 3), R(2, 4))
        else:
            add("einsum " + eq, lambda x, y, eq=eq: torch.einsum(eq, x, y), R(*s1), R(*s2))
    add("sum all", lambda x: x.sum(), a)
    add("sum dim", lambda x: x.sum(-1), a)
    add("sum dims", lambda x: torch.sum(x, dim=(0, 1)), R(2, 2, 3))
    add("sum dim0", lambda x: torch.sum(x, 0), a)
    add("mean", lambda x: x.mean(1), a)
    add("mean all", lambda x: torch.mean(x), a)
    add("exp", lambda x: x.exp(), a)
    add("log", lambda x: x.log(), P(2, 3))
    add("sqrt", lambda x: x.sqrt(), P(2, 3))
    add("cos", lambda x: x.cos(), a)
    add("sin", lambda x: x.sin(), a)
    add("atan2", lambda y, x: torch.atan2(y, x), a, P(2, 3))
    add("softplus", lambda x: F.softplus(x), a)
    add("logsumexp", lambda x: x.logsumexp(0), a)
    add("abs", lambda x: x.abs(), a)
    add("cat", lambda x, y: torch.cat((x, y), dim=0), a, b)
    add("cat -1", lambda x, y: torch.cat([x, y], dim=-1), a, b)
    add("stack", lambda x, y: torch.stack([x, y]), a, b)
    add("unsqueeze", lambda x: x.unsqueeze(1), a)
    add("unsqueeze -1", lambda x: x.unsqueeze(-1), a)
    add("squeeze", lambda x: x.unsqueeze(0).squeeze(0), a)
    add("t", lambda x: x.t(), a)
    add("transpose", lambda x: torch.transpose(x, 0, 1), R(2, 3, 2))
    add("transpose 0,-1", lambda x: x.transpose(0, -1), a)
    add("view", lambda x: x.view(3, 2), a)
    add("view -1", lambda x: x.view(2, -1), R(2, 3, 2))
    add("reshape", lambda x: x.reshape(6), a)
    add("expand", lambda x: x.expand(2, 3, -1), R(1, 3))
    add("expand new dims", lambda x: x.expand(2, 2, -1), v)
    add("repeat", lambda x: x.repeat(2, 1, 1), a.unsqueeze(0))
    add("getitem 0,...", lambda x: x[0, ...], R(2, 3, 2))
    add("getitem slice", lambda x: x[:, 1:3], R(2, 4))
    add("getitem stride", lambda x: x[:, slice(1, 4, 2)], R(2, 5))
    add("getitem list", lambda x: x[[1, 0, 1]], a)
    add("getitem long tensor", lambda x: x[:, torch.tensor([[0, 2], [1, 1]])], R(2, 3))
    add("getitem two index tensors", lambda x: x[:, torch.tensor([[0], [1]]), torch.tensor([[1, 0]])], R(2, 2, 2))
    add("getitem bool mask", lambda x: x[torch.tensor([True, False]), :], a)
    add("getitem ellipsis idx", lambda x: x[..., [0, 2]], a)
    add("roll", lambda x: torch.roll(x, 1, 0), a)
    add("diagonal", lambda x: torch.diagonal(x), R(3, 3))
    add("zeros_like", lambda x: torch.zeros_like(x), a)
    add("clone", lambda x: x.clone(), a)
    add("sigmoid_", lambda x: x.clone().sigmoid_(), a)
    add("parameters_to_vector", lambda x, y: torch.nn.utils.parameters_to_vector([x, y]), a, v)
    add("var_mean", lambda x: list(torch.var_mean(x)), R(5))
    # every primitive model that the proofs on the unchanged tree go through has at least one case (cli reports models a
    # run used without one, see `covered`)
    add("len", lambda x: float(len(x)), R(3, 2))
    add("abs_", lambda x: x.clone().abs_(), a)
    add("clamp min max", lambda x: x.clamp(min=-0.75, max=0.75), a)
    add("clamp min", lambda x: torch.clamp(x, min=0.25), a)
    add("clamp_ max", lambda x: x.clone().clamp_(max=0.25), a)
    add("contiguous of a transposed view", lambda x: x.t().contiguous(), a)
    add("cpu / detach / to / requires_grad_", lambda x: x.cpu().detach().to(dtype=torch.double).requires_grad_(False) * 2, a)
    add("to(other)", lambda x, y: x.to(y) + y, a, b)
    add("dim / size", lambda x: float(x.dim() * 100 + x.size(0) * 10 + x.size()[1] + x.shape[-1]), a)
    add("item", lambda x: x.sum().item() * 1.0, a)
    add("mul_", lambda x, y: x.clone().mul_(y), a, b)
    add("mul_ scalar", lambda x: x.clone().mul_(-1.5), a)
    add("pow_", lambda x: x.clone().pow_(2), a)
    add("sqrt_", lambda x: x.clone().sqrt_(), P(2, 3))
    add("squeeze_", lambda x: x.unsqueeze(0).clone().squeeze_(0), a)
    add("squeeze_ all", lambda x: x.clone().squeeze_(), R(1, 3, 1))
    add("numpy()", lambda x: torch.tensor(np.asarray(x.detach().cpu().numpy()) * 2.0) if not isinstance(x, st.SymTensor) else x.detach().cpu().numpy() * 2.0, a)
    add("numpy arithmetic", lambda x, y: _np_chain(x, y), P(2, 3), P(2, 3))
    add("numpy einsum / prod / conj", lambda x, y: _np_chain2(x, y), R(2, 3), R(2, 3))
    add("torch.tensor(numpy of sym)", lambda x: torch.tensor(x.numpy() + 1.0, dtype=torch.double), a)
    add("tan / atan", lambda x: torch.atan(torch.tan(x) * 2), a)
    add("tanh", lambda x: torch.tanh(x), a)
    add("log1p / expm1", lambda x: torch.log1p(x) - torch.expm1(x), P(2, 3))
    add("relu", lambda x: F.relu(x), a)
    add("reciprocal", lambda x: x.reciprocal() + torch.reciprocal(x), P(2, 3))
    add("rsqrt / square", lambda x: x.rsqrt() * x.square(), P(2, 3))
    add("addcmul", lambda x, y, z: torch.addcmul(x, y, z, value=0.5), a, b, R(2, 3))
    add("addcmul_", lambda x, y, z: x.clone().addcmul_(y, z, value=-2), a, b, R(2, 3))
    add("addcdiv_", lambda x, y, z: x.clone().addcdiv_(y, z), a, b, P(2, 3))
    add("addmm / addmv", lambda x, y, z, w: torch.addmm(x, y, z).sum(0) + torch.addmv(w, z.t(), y[0]), R(2, 4), a, m, R(4))
    add("mm / bmm", lambda x, y, z, w: torch.mm(x, y).unsqueeze(0) + torch.bmm(z, w), a, m, R(1, 2, 3), R(1, 3, 4))
    add("outer / inner / vdot", lambda x, y: torch.outer(x, y) * torch.inner(x, y) + torch.vdot(x, y), v, R(3))
    add("tensordot", lambda x, y: torch.tensordot(x, y, dims=1), a, m)
    add("narrow / select", lambda x: x.narrow(1, 1, 2) + x.select(1, 0).unsqueeze(1), a)
    add("chunk / split / unbind", lambda x: list(x.chunk(2, dim=1)) + list(x.split(2, dim=1)) + list(x.unbind(0)), R(2, 5))
    add("permute / movedim / swapaxes", lambda x: x.permute(2, 0, 1) + x.movedim(2, 0) + x.swapaxes(0, 2).swapaxes(1, 2), R(2, 3, 2))
    add("flip", lambda x: x.flip(1), a)
    add("flatten", lambda x: x.flatten(), R(2, 3, 2))
    add("expand_as / view_as", lambda x, y: x.expand_as(y) + y.view_as(y), v, a)
    add("index_select", lambda x: x.index_select(1, torch.tensor([2, 0])), a)
    add("prod / trace / diag", lambda x: x.prod() + torch.trace(x) + torch.diag(x).sum(), R(3, 3))
    add("new_zeros / new_ones / full_like / ones_like", lambda x: x.new_zeros(2, 3) + x.new_ones(2, 3) + torch.full_like(x, 1.5) + torch.ones_like(x), a)
    add("copy_ / fill_ / zero_", lambda x, y: x.clone().copy_(y) + x.clone().fill_(2.0) + x.clone().zero_(), a, b)
    add("neg_ / exp_ / cos_ / sin_", lambda x: x.clone().neg_().exp_() + x.clone().cos_() + x.clone().sin_(), a)
    add("log_", lambda x: x.clone().log_(), P(2, 3))
    add("sinh / cosh", lambda x: torch.sinh(x) + torch.cosh(x), a)
    add("logaddexp", lambda x, y: torch.logaddexp(x, y), a, b)
    add("numel / nelement / ndimension", lambda x: float(x.numel() + x.nelement() * 10 + x.ndimension() * 100), a)
    add("where on a concrete mask", lambda x, y: torch.where(torch.tensor([[True, False, True], [False, True, True]]), x, y), a, b)
    add("sigmoid", lambda x: torch.sigmoid(x), a)
    add("true_divide / divide / multiply / subtract", lambda x, y: torch.true_divide(x, y) + torch.divide(x, y) + torch.multiply(x, y) - torch.subtract(x, y), a, P(2, 3))
    return out


def _np_chain(x, y):
    xn, yn = x.numpy(), y.numpy()
    r = np.sqrt(np.multiply(xn, yn)) + np.exp(xn) + np.divide(xn, yn) + np.add(xn, yn) + np.absolute(xn) + np.sum(xn, axis=0)
    return r if isinstance(x, st.SymTensor) else torch.tensor(r)


def _np_chain2(x, y):
    z = x.numpy() + 1j * y.numpy()
    r = np.einsum("ib,jb->ijb", z, np.conj(z))
    q = np.prod(z, axis=-1)
    w = np.matmul(z, np.conjugate(z).T)
    res = np.real(r).sum(axis=-1) + np.imag(w) + np.real(q)[:, None]
    return res if isinstance(x, st.SymTensor) else torch.tensor(res)


def inplace_cases(rng):
    R = lambda *s: torch.tensor(rng.integers(-3, 4, size=s) / 2.0, dtype=torch.double)
    out = []
    add = lambda name, f, *args: out.append((name, f, args))

    def through_view(x, y):
        v = x[0, ...]
        v.add_(y)
        return x
    add("write through x[0,...] view", through_view, R(2, 3), R(3))

    def out_buffer(x, y, o):
        r = torch.mul(x, y, out=o[1, ...])
        r.sub_(x)
        return o
    add("out= into a view, then in-place on the result", out_buffer, R(3), R(3), R(2, 3))

    def setitem_slice(x, y):
        x[:, slice(0, 4, 2), ...] = y
        return x
    add("setitem on a strided slice", setitem_slice, R(2, 4, 2), R(2, 2, 2))

    def setitem_cols(x, y):
        x[:, [0, 2]] = y
        return x
    add("setitem on a column list", setitem_cols, R(2, 3), R(2, 2))

    def unsq_(x, y):
        return x.unsqueeze_(1) + y.unsqueeze_(0)
    add("unsqueeze_ results combined", unsq_, R(2), R(3))

    x01 = torch.tensor([[0., 1., 1.], [1., 0., 1.]], dtype=torch.double)       # concrete 0/1 states, as in the library

    def matmul_out(w, bb, o):
        return torch.matmul(x01, w, out=o).add_(bb).sigmoid_().clamp_(min=0, max=1)
    add("matmul(out=).add_.sigmoid_.clamp_", matmul_out, R(3, 2), R(2), R(2, 2))

    def transposed_write(x):
        t = x.t()
        t[0, :] = 7.0
        return x
    add("write through a transposed view", transposed_write, R(2, 3))

    def clone_keeps_layout(x):
        y = x.t().clone()                 # stays transposed: reshape cannot be a view, writes into it are lost
        y.reshape(-1).mul_(2.0)
        z = x.clone()
        z.reshape(-1).mul_(3.0)           # contiguous: a view, the write lands in z
        c = x.t().contiguous()
        c.reshape(-1).add_(1.0)           # a fresh copy, x untouched
        return [y, z, c, x, torch.tensor(float(y.is_contiguous()) + 2 * float(z.is_contiguous()))]
    add("clone keeps strides / reshape view-or-copy / contiguous copies", clone_keeps_layout, R(2, 3))

    def view_raises(x):
        try:
            x.t().view(-1)
            return x * 0
        except RuntimeError:
            return x.t().reshape(-1)
    add("view of a transposed tensor raises", view_raises, R(2, 3))

    def write_into_other_dtypes(x):
        outs = []
        for dt in (torch.int64, torch.float32, torch.bool, torch.uint8):
            buf = torch.zeros(2, 3, dtype=dt)
            buf[0] = x[0] * 1.3 + 0.2
            buf[1, :2] = x[1, :2]
            outs.append(buf.double() if not isinstance(buf, st.SymTensor) else buf)
        e = torch.zeros(2, 3, dtype=torch.float32)
        e.copy_(x * 0.7)
        outs.append(e.double() if not isinstance(e, st.SymTensor) else e)
        return outs
    add("writes into int64 / float32 / bool / uint8 tensors convert the values", write_into_other_dtypes, torch.tensor(rng.integers(0, 5, size=(2, 3)) / 2.0, dtype=torch.double))

    def write_through_diagonal(x):
        torch.diagonal(x).mul_(2.0)
        return x
    add("write through a diagonal view", write_through_diagonal, R(3, 3))

    def diag_div(x, y):
        return x.clone().div_(y)
    add("div_", diag_div, R(2, 3), torch.tensor(rng.integers(1, 4, size=(2, 3)) / 1.0, dtype=torch.double))
    return out


def run(seed=0):
    rng = np.random.default_rng(seed)
    bad, n = [], 0
    before = dict(st.PRIMS_USED)
    try:
        return _run(rng, bad, n)
    finally:
        COVERED.update(k for k, c in st.PRIMS_USED.items() if c != before.get(k, 0))
        st.PRIMS_USED.clear()
        st.PRIMS_USED.update(before)


COVERED = set()        # primitive models exercised by the last run()


def _run(rng, bad, n):
    for name, f, args in cases(rng) + inplace_cases(rng):
        n += 1
        try:
            real = f(*[a.clone() for a in args])
            sy = f(*[_sym(a.clone()) for a in args])
            rv, sv = _val(real), _val(sy)
            if not _close(rv if isinstance(rv, list) else np.asarray(rv), sv if isinstance(sv, list) else np.asarray(sv)):
                bad.append((name, "value / shape mismatch: real %s vs model %s" % (np.shape(rv), np.shape(sv))))
        except Exception as e:
            bad.append((name, "raised %s: %s" % (type(e).__name__, str(e)[:120])))
    # autograd rule used when a lemma installs parameters that require grad: out= with such an operand is refused, and the
    # property is inherited by results (not by detach)
    n += 1
    keep = st.REQUIRES_GRAD[0]
    try:
        st.REQUIRES_GRAD[0] = True
        wr = torch.tensor([[1.0, 2.0], [0.5, -1.0]], dtype=torch.double, requires_grad=True)
        xr = torch.tensor([1.0, -2.0], dtype=torch.double)
        ws, xs = _sym(wr.detach()), _sym(xr)
        ws._rg = True

        def refused(w, x):
            y = F.linear(x, w) * 2 + 1               # requires grad through w
            buf = torch.zeros(2, dtype=torch.double) if not isinstance(w, st.SymTensor) else _sym(torch.zeros(2, dtype=torch.double))
            out = []
            for call in (lambda: torch.add(y, x, out=buf), lambda: torch.add(y.detach(), x, out=buf), lambda: torch.mv(w, x, out=buf)):
                try:
                    call()
                    out.append(False)
                except RuntimeError:
                    out.append(True)
            with torch.no_grad():
                try:
                    torch.mv(w, x, out=buf)
                    out.append(False)
                except RuntimeError:
                    out.append(True)
            return out
        if refused(wr, xr) != refused(ws, xs):
            bad.append(("out= with operands that require grad", "real %s vs model %s" % (refused(wr, xr), refused(ws, xs))))
    except Exception as e:
        bad.append(("out= with operands that require grad", "raised %s: %s" % (type(e).__name__, str(e)[:120])))
    finally:
        st.REQUIRES_GRAD[0] = keep
    # numpy side: object arrays through SymNd
    z = (rng.integers(-2, 3, size=(2, 3)) + 1j * rng.integers(-2, 3, size=(2, 3))).astype(complex)
    w = (rng.integers(-2, 3, size=(3,)) + 1j * rng.integers(-2, 3, size=(3,))).astype(complex)
    zs = st._obj(z).view(st.SymNd)
    for name, fr, fs in (("np real/imag", lambda: np.real(z) - np.imag(z), lambda: np.real(zs) - np.imag(zs)),
                         ("np conj", lambda: np.conj(z), lambda: np.conj(zs)),
                         ("np einsum", lambda: np.einsum("ib,jb->ijb", z, np.conj(z)), lambda: np.einsum("ib,jb->ijb", zs, np.conj(zs))),
                         ("np prod", lambda: np.prod(z, axis=-1), lambda: np.prod(zs, axis=-1)),
                         ("np inplace mul", lambda: z * w, lambda: _imul(z.copy(), st._obj(w).view(st.SymNd))),
                         ("np matmul", lambda: np.matmul(z, z.T), lambda: np.matmul(zs, zs.T))):
        n += 1
        try:
            rv = np.asarray(fr(), dtype=complex)
            sv = np.asarray(fs())
            svc = np.empty(sv.shape, dtype=complex)
            for k in np.ndindex(*sv.shape):
                svc[k] = complex(alg.evalf(alg.to_P(sv[k]), ENV))
            if rv.shape != svc.shape or not np.allclose(rv, svc):
                bad.append((name, "value / shape mismatch"))
        except Exception as e:
            bad.append((name, "raised %s: %s" % (type(e).__name__, str(e)[:120])))
    return {"calls": n, "mismatches": bad}


def _imul(a, b):
    a *= b
    return a
