#!/bin/bash
# tools/allquick.sh [tier] : every check on /repo, 4 at a time; prints the summary line and exit code of each
TIER=${1:-quick}
cd /verif
ls lemmas | grep -o 'C[0-9][0-9]' | sort -u | xargs -P 4 -I{} bash -c "timeout 7000 ./vf check {} --tier $TIER > /tmp/aq_{}.log 2>&1; echo \"{} exit=\$? \$(grep -m1 '^C[0-9][0-9] tier' /tmp/aq_{}.log)\""
