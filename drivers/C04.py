"""C04 concrete driver: rotations vs np.kron (float64)."""
import re
from functools import reduce

import numpy as np
import torch

from . import common as C


def _c2t(z):
    return torch.tensor(np.stack([z.real, z.imag]), dtype=torch.double)


def _t2c(t):
    return t[0].numpy() + 1j * t[1].numpy()


def _from_env(env, prefix, shape, rng):
    a = rng.normal(0, 1, size=shape) + 1j * rng.normal(0, 1, size=shape)
    for k, v in (env or {}).items():
        m = re.match(r"^%s_(re|im)\[([\d,]*)\]$" % re.escape(prefix), k)
        if m:
            idx = tuple(int(x) for x in m.group(2).split(","))
            if len(idx) == len(shape):
                if m.group(1) == "re":
                    a[idx] = float(v) + 1j * a[idx].imag
                else:
                    a[idx] = a[idx].real + 1j * float(v)
    return a


def check(basis, symbolic, env=None, seed=0):
    from qucumber.utils import unitaries
    rng = np.random.default_rng(seed)
    n = len(basis)
    D = 2 ** n
    cw = C.make_state("complex", n, 1)
    dm = C.make_state("mixed", n, 1, 1)
    ud = unitaries.create_dict()
    if symbolic:
        for L in sorted(set(basis) | {"X"}):
            if L != "Z":
                ud[L] = _c2t(_from_env(env, "U" + L, (2, 2), rng))
    cw.unitary_dict = dict(ud)
    dm.unitary_dict = dict(ud)
    Ud = reduce(np.kron, [_t2c(ud[b]) for b in basis])
    psi = _from_env(env, "psi", (D,), rng)
    rho = _from_env(env, "rho", (D, D), rng)
    rho = np.triu(rho, 1) + np.triu(rho, 1).conj().T + np.diag(np.real(np.diag(rho)))      # Hermitian, complex off-diagonal
    space = cw.generate_hilbert_space(n)
    fails = []
    tol = dict(rtol=1e-9, atol=1e-9)
    if not np.allclose(_t2c(unitaries._kron_mult([ud[b] for b in basis], _c2t(psi))), Ud @ psi, **tol):
        fails.append(("_kron_mult != kron . psi", basis))
    if not np.allclose(_t2c(unitaries.rotate_psi(cw, basis, space, psi=_c2t(psi))), Ud @ psi, **tol):
        fails.append(("rotate_psi != U psi", basis))
    want = Ud @ rho @ Ud.conj().T
    if not np.allclose(_t2c(unitaries.rotate_rho(dm, basis, space, rho=_c2t(rho))), want, **tol):
        fails.append(("rotate_rho != U rho U^dagger", basis))
    order = list(range(D))[::-1] + [0, D - 1, 0]
    batch = space[order].clone()
    a = _t2c(unitaries.rotate_psi_inner_prod(cw, basis, batch, psi=_c2t(psi)))
    if not np.allclose(a, (Ud @ psi)[order], **tol):
        fails.append(("rotate_psi_inner_prod(explicit psi) != (U psi)[idx]", float(np.abs(a - (Ud @ psi)[order]).max())))
    p = unitaries.rotate_rho_probs(dm, basis, batch, rho=_c2t(rho)).numpy()
    if not np.allclose(p, np.real(np.diag(want))[order], **tol):
        fails.append(("rotate_rho_probs(explicit rho) != Re diag(U rho U^dagger)", float(np.abs(p - np.real(np.diag(want))[order]).max())))
    # explicit states given as non-contiguous views (a transposed matrix, every second column of a wider buffer): the memory
    # layout of an argument is not part of its value
    rho_t = _c2t(rho)
    rho_nc = rho_t.transpose(1, 2).contiguous().transpose(1, 2)          # same entries, column-major storage
    wide = torch.zeros(2, 2 * D, dtype=torch.double)
    wide[:, ::2] = _c2t(psi)
    psi_nc = wide[:, ::2]
    if rho_nc.is_contiguous() and D > 1:
        fails.append(("driver: could not build a non-contiguous rho", None))
    if not np.allclose(_t2c(unitaries.rotate_rho(dm, basis, space, rho=rho_nc)), want, **tol):
        fails.append(("rotate_rho(non-contiguous explicit rho) != U rho U^dagger", basis))
    if not np.allclose(_t2c(unitaries.rotate_psi(cw, basis, space, psi=psi_nc)), Ud @ psi, **tol):
        fails.append(("rotate_psi(non-contiguous explicit psi) != U psi", basis))
    pn = unitaries.rotate_rho_probs(dm, basis, batch, rho=rho_nc).numpy()
    if not np.allclose(pn, np.real(np.diag(want))[order], **tol):
        fails.append(("rotate_rho_probs(non-contiguous explicit rho) != Re diag(U rho U^dagger)", basis))
    an = _t2c(unitaries.rotate_psi_inner_prod(cw, basis, batch, psi=psi_nc))
    if not np.allclose(an, (Ud @ psi)[order], **tol):
        fails.append(("rotate_psi_inner_prod(non-contiguous explicit psi) != (U psi)[idx]", basis))
    if not torch.equal(rho_nc, rho_t) or not torch.equal(psi_nc, _c2t(psi)):
        fails.append(("an explicit state passed as a view was modified", basis))
    # explicit states whose tensors are not float64 (integer amplitudes, single precision): the exact unitary factors are not
    # to be narrowed to the state's dtype
    ipsi = rng.integers(-2, 3, size=(2, D))
    ipsi[0, 0] = 1
    ipc = ipsi[0] + 1j * ipsi[1]
    irho = np.outer(ipc, ipc.conj())
    for dt, tl in ((torch.int64, dict(rtol=1e-9, atol=1e-9)), (torch.float32, dict(rtol=1e-5, atol=1e-5))):
        tpsi = torch.tensor(ipsi, dtype=dt)
        trho = torch.tensor(np.stack([irho.real, irho.imag]), dtype=dt)
        try:
            a = _t2c(unitaries.rotate_psi_inner_prod(cw, basis, batch, psi=tpsi).to(torch.double))
            p = unitaries.rotate_rho_probs(dm, basis, batch, rho=trho).to(torch.double).numpy()
        except Exception as e:
            fails.append(("explicit %s state rejected: %r" % (dt, e), None))
            continue
        if not np.allclose(a, (Ud @ ipc)[order], **tl):
            fails.append(("rotate_psi_inner_prod(explicit %s psi) != (U psi)[idx]" % dt, float(np.abs(a - (Ud @ ipc)[order]).max())))
        wi = np.real(np.diag(Ud @ irho @ Ud.conj().T))[order]
        if not np.allclose(p, wi, **tl):
            fails.append(("rotate_rho_probs(explicit %s rho) != Re diag(U rho U^dagger)" % dt, float(np.abs(p - wi).max())))
    # model-derived paths
    C.randomize(cw, rng)
    C.randomize(dm, rng)
    mpsi = _t2c(cw.psi(space))
    a = _t2c(unitaries.rotate_psi_inner_prod(cw, basis, batch))
    if not np.allclose(a, (Ud @ mpsi)[order], **tol):
        fails.append(("rotate_psi_inner_prod(model) != (U psi)[idx]", None))
    mrho = _t2c(dm.rho(space, space))
    p = unitaries.rotate_rho_probs(dm, basis, batch).numpy()
    wantm = np.real(np.diag(Ud @ mrho @ Ud.conj().T))
    if not np.allclose(p, wantm[order], **tol):
        fails.append(("rotate_rho_probs(model) != Re diag(U rho U^dagger)", None))
    p2 = unitaries.rotate_rho_probs(dm, basis, batch, rho=dm.rho(space, space)).numpy()
    if not np.allclose(p2, wantm[order], **tol):
        fails.append(("rotate_rho_probs(rho=model rho given explicitly) != Re diag(U rho U^dagger)", float(np.abs(p2 - wantm[order]).max())))
    if not symbolic:
        if p.min() < -1e-9 * (1 + np.abs(p).max()) or not np.isclose(wantm.sum(), np.trace(mrho).real):
            fails.append(("rotated probabilities negative or not summing to normalisation", None))
    return fails


def replay(cfg, env):
    if cfg.get("callee"):
        from drivers import C19 as D19
        r = D19.replay({"part": "indexing", "size": cfg["size"]})
        if not r.get("reproduced") and cfg["size"] >= 9:
            f = long_chain(min(cfg["size"], 10), 0)
            return {"reproduced": bool(f), "failed_clauses": [(a, str(b)) for a, b in f[:3]], "cfg": cfg}
        return r
    if cfg.get("mode") == "dictionary":
        from qucumber.utils import unitaries
        d = unitaries.create_dict()
        h = 1 / np.sqrt(2)
        ok = np.allclose(_t2c(d["X"]), h * np.array([[1, 1], [1, -1]])) and np.allclose(_t2c(d["Y"]), h * np.array([[1, -1j], [1, 1j]])) \
            and np.allclose(_t2c(d["Z"]), np.eye(2))
        return {"reproduced": not ok, "failed_clauses": [] if ok else [("default dictionary entries", None)]}
    fails = []
    for s in range(3):
        fails = check(cfg["basis"], cfg["mode"] == "symbolic", env if s == 0 else None, s)
        if fails:
            break
    return {"reproduced": bool(fails), "failed_clauses": [(a, str(b)) for a, b in fails[:4]], "env": env, "cfg": cfg}


def long_chain(n, seed=0, rows=24):
    """Many rotated sites at once (the enumeration of the rotated sub-space has 2^k rows, k = number of non-Z sites):
    explicit psi / rho, random outcomes, compared with the dense Kronecker product."""
    from qucumber.utils import unitaries
    rng = np.random.default_rng(seed)
    D = 2 ** n
    basis = "".join(rng.choice(list("XY"), size=n)) if seed % 2 == 0 else "".join(rng.choice(list("XYZ"), size=n, p=[0.45, 0.45, 0.1]))
    cw = C.make_state("complex", n, 1)
    dm = C.make_state("mixed", n, 1, 1)
    ud = unitaries.create_dict()
    U = reduce(np.kron, [_t2c(ud[b]) for b in basis])
    psi = rng.normal(size=D) + 1j * rng.normal(size=D)
    psi /= np.linalg.norm(psi)
    idx = rng.integers(0, D, size=rows)
    states = torch.tensor([[(i >> (n - 1 - s)) & 1 for s in range(n)] for i in idx], dtype=torch.double)
    fails = []
    got = _t2c(unitaries.rotate_psi_inner_prod(cw, basis, states, psi=_c2t(psi)))
    want = (U @ psi)[idx]
    if got.shape != want.shape or not np.allclose(got, want, rtol=1e-9, atol=1e-11):
        fails.append(("rotate_psi_inner_prod != (U psi)[index] for %d sites, basis %s" % (n, basis), float(np.max(np.abs(got - want)))))
    full = _t2c(unitaries.rotate_psi(cw, basis, cw.generate_hilbert_space(n), psi=_c2t(psi)))
    if not np.allclose(full, U @ psi, rtol=1e-9, atol=1e-11):
        fails.append(("rotate_psi != U psi for %d sites, basis %s" % (n, basis), float(np.max(np.abs(full - U @ psi)))))
    if n <= 9:
        rho = np.outer(psi, psi.conj()) * 0.7 + 0.3 * np.eye(D) / D
        p = unitaries.rotate_rho_probs(dm, basis, states[:3], rho=_c2t(rho)).numpy()
        wantp = np.real(np.diag(U @ rho @ U.conj().T))[idx[:3]]
        if not np.allclose(p, wantp, rtol=1e-9, atol=1e-11):
            fails.append(("rotate_rho_probs != diag(U rho U^dagger)[index] for %d sites, basis %s" % (n, basis), float(np.max(np.abs(p - wantp)))))
    return fails


def bounded(tier, seed):
    import itertools
    n, bad = 0, []
    for nn, s in (((9, 0), (10, 2), (9, 1)) if tier == "quick" else ((9, 0), (10, 2), (9, 1), (11, 4), (12, 6), (10, 3))):
        f = long_chain(nn, s + seed * 2)
        n += 1
        if f:
            bad.append(("%d sites" % nn, "long_chain", f[:2]))
    strings = ["".join(s) for k in ((1, 2) if tier == "quick" else (1, 2, 3, 4)) for s in itertools.product("XYZ", repeat=k)]
    for b in strings:
        for sym in (False, True):
            f = check(b, sym, None, seed)
            n += 1
            if f:
                bad.append((b, sym, f[:2]))
    return {"driver": "drivers/C04.check", "label": "bounded", "evaluations": n, "failures": len(bad),
            "bound": "float64, %d basis strings x {default dictionary, random complex 2x2 matrices}, random complex psi / non-Hermitian rho; 9-10 (thorough: up to 12) sites, most of them rotated, on explicit states and random outcomes" % len(strings),
            "first_failures": bad[:3]}
