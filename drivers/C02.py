"""C02 concrete driver: density matrix vs partial trace of the purification (float)."""
import numpy as np
import torch

from . import common as C


def purification(st, nv):
    am, ph = C.np_params(st.rbm_am), C.np_params(st.rbm_ph)
    na = len(am["aux_bias"])
    vs, auxs = C.bits(nv), C.bits(na)
    Psi = np.zeros((len(vs), len(auxs)), dtype=complex)
    for i, v in enumerate(vs):
        for k, a in enumerate(auxs):
            Psi[i, k] = np.sqrt(C.marginal_p_np(am, v, a)) * np.exp(0.5j * np.log(C.marginal_p_np(ph, v, a)))
    return Psi


def native_check(cfg, env=None, seed=0, scale=1.0):
    rng = np.random.default_rng(seed)
    nv = cfg["nv"]
    C.VIA[0] = cfg.get("via")
    st = C.make_state("mixed", nv, cfg["nh"], cfg["na"])
    C.randomize(st, rng, scale)
    C.set_env(st, env)
    st.rbm_ph.aux_bias.data.zero_()
    space = st.generate_hilbert_space(nv)
    D = 2 ** nv
    fails = []
    Psi = purification(st, nv)
    want = Psi @ Psi.conj().T
    before = {(net, n): p.detach().clone() for net in st.networks for n, p in getattr(st, net).named_parameters()}
    rho_t = st.rho(space, space)
    rho = rho_t[0].numpy() + 1j * rho_t[1].numpy()
    tol = 1e-8
    if not C.close(rho, want, tol):
        fails.append(("rho != partial trace of purification", float(np.abs(rho - want).max())))
    if not C.close(rho, rho.conj().T, tol):
        fails.append(("rho not Hermitian", None))
    ev = np.linalg.eigvalsh((rho + rho.conj().T) / 2)
    if ev.min() < -1e-8 * max(1.0, ev.max()):
        fails.append(("rho not PSD", float(ev.min())))
    prob = st.probability(space).numpy()
    if not C.close(np.real(np.diag(rho)), prob, tol) or np.abs(np.imag(np.diag(rho))).max() > 1e-9 * (1 + np.abs(rho).max()):
        fails.append(("diag(rho) != probability", None))
    marg = np.array([C.marginal_p_np(C.np_params(st.rbm_am), v) for v in C.bits(nv)])
    if not C.close(prob, marg, tol):
        fails.append(("probability != marginal over h,a", None))
    Z = float(st.normalization(space))
    if not C.close(np.trace(rho).real, Z, tol):
        fails.append(("trace != normalization", None))
    flip = torch.flip(space, [0])
    rp = st.rho(space, flip, expand=False)
    rp = rp[0].numpy() + 1j * rp[1].numpy()
    if rp.shape != (D,) or not C.close(rp, np.array([want[i, D - 1 - i] for i in range(D)]), tol):
        fails.append(("paired call form disagrees", None))
    r1 = st.rho(space[0], space[D - 1])
    r1 = complex(r1[0].item(), r1[1].item()) if r1.numel() == 2 else None
    if r1 is None or not C.close(r1, want[0, D - 1], tol):
        fails.append(("single element call form disagrees", None))
    for i in range(D):
        for j in range(D):
            rij = st.rho(space[i], space[j])
            z = complex(rij[0].item(), rij[1].item()) if rij.numel() == 2 else None
            if z is None or not C.close(z, want[i, j], tol):
                fails.append(("single element call form disagrees for the pair (%d, %d)" % (i, j), None))
                break
    # one state against a batch
    full_m = st.rho(space, space)
    for i in (0, len(space) - 1):
        row, col = st.rho(space[i], space, expand=False), st.rho(space, space[i], expand=False)
        cz = lambda t: t[0].numpy() + 1j * t[1].numpy()       # noqa: E731  (compared as complex numbers: the tolerance is relative to the modulus)
        if tuple(row.shape) != tuple(full_m[:, i, :].shape) or not C.close(cz(row), cz(full_m[:, i, :])) or not C.close(cz(col), cz(full_m[:, :, i])):
            fails.append(("rho(one state, batch, expand=False) / rho(batch, one state, expand=False) is not the row / column of the matrix", None))
    # a flag is a flag whatever object carries it: numpy / tensor booleans and 0 / 1 select the same call form as True / False
    for name, yes, no in (("numpy.bool_", np.True_, np.False_), ("int", 1, 0), ("0-d bool tensor", torch.tensor(True), torch.tensor(False))):
        full_y, pair_n = st.rho(space, space, expand=yes), st.rho(space, flip, expand=no)
        if not torch.equal(full_y, st.rho(space, space, expand=True)) or not torch.equal(pair_n, st.rho(space, flip, expand=False)):
            fails.append(("rho(..., expand=<%s>) differs from rho(..., expand=True / False)" % name, None))
        if not torch.equal(st.pi(space, space, expand=yes), st.pi(space, space, expand=True)) or not torch.equal(st.pi(space, flip, expand=no), st.pi(space, flip, expand=False)):
            fails.append(("pi(..., expand=<%s>) differs from pi(..., expand=True / False)" % name, None))
    rd = st.rho(space, expand=False)
    if tuple(rd.shape) != (2, D) or not C.close(rd[0].numpy(), prob, tol) or np.any(rd[1].numpy() != 0):
        fails.append(("rho(v, expand=False) != [probability, 0]", None))
    for net in st.networks:
        for n, p in getattr(st, net).named_parameters():
            if not torch.equal(p, before[(net, n)]):
                fails.append(("parameter changed by evaluation", net + "." + n))
    return fails


def large_regime(seed=0, nv=2, nh=2, na=3):
    """Magnitudes up to ~30 (the property's range), several auxiliary units with large couplings and biases, negative
    visible biases: the entries of rho are finite although sums over the auxiliary layer pass e^700 on the way.  The
    reference is the partial trace of the purified state in extended precision (numpy longdouble, log domain per term)."""
    rng = np.random.default_rng(seed)
    st = C.make_state("mixed", nv, nh, na)
    C.randomize(st, rng, 2.0)
    st.rbm_am.weights_U.data = torch.tensor(rng.uniform(18, 28, size=(na, nv)), dtype=torch.double)
    st.rbm_am.aux_bias.data = torch.tensor(rng.uniform(18, 28, size=(na,)), dtype=torch.double)
    st.rbm_am.visible_bias.data = torch.tensor(rng.uniform(-30, -20, size=(nv,)), dtype=torch.double)
    st.rbm_ph.aux_bias.data.zero_()
    am, ph = C.np_params(st.rbm_am), C.np_params(st.rbm_ph)
    L = np.longdouble
    vs, auxs, hs = C.bits(nv), C.bits(na), C.bits(nh)

    def logp(par, v, a):
        W, U = par["weights_W"].astype(L), par["weights_U"].astype(L)
        b, c, d = par["visible_bias"].astype(L), par["hidden_bias"].astype(L), par["aux_bias"].astype(L)
        v, a = np.asarray(v, dtype=L), np.asarray(a, dtype=L)
        th = c + W @ v
        return b @ v + d @ a + a @ U @ v + np.sum(np.log1p(np.exp(th)))
    D = len(vs)
    want = np.zeros((D, D), dtype=np.clongdouble)
    for i, v in enumerate(vs):
        for j, w in enumerate(vs):
            for a in auxs:
                lam = (logp(am, v, a) + logp(am, w, a)) / 2
                mu = (logp(ph, v, a) - logp(ph, w, a)) / 2
                want[i, j] += np.exp(lam) * (np.cos(mu) + 1j * np.sin(mu))
    space = st.generate_hilbert_space(nv)
    fails = []
    with np.errstate(all="ignore"):
        r = st.rho(space, space)
        got = r[0].numpy().astype(L) + 1j * r[1].numpy().astype(L)
        fin = np.isfinite(np.abs(want).astype(float))
        if not np.all(np.isfinite(got.real[fin].astype(float))) or not np.all(np.isfinite(got.imag[fin].astype(float))):
            fails.append(("large parameters: rho has non-finite entries where the partial trace is finite", float(np.max(np.abs(want[fin]).astype(float)))))
        else:
            rel = np.abs(got[fin] - want[fin]) / np.maximum(np.abs(want[fin]), L(1e-300))
            if float(np.max(rel)) > 1e-8:
                fails.append(("large parameters: rho != partial trace of the purified state (extended-precision reference)", float(np.max(rel))))
        prob = st.probability(space).numpy()
        dg = np.real(np.diag(want)).astype(float)
        if not np.allclose(prob[np.isfinite(dg)], dg[np.isfinite(dg)], rtol=1e-8, atol=0):
            fails.append(("large parameters: probability != diagonal of the partial trace", None))
    return fails


def bounded(tier, seed):
    n, bad = 0, []
    archs = [(1, 1, 1), (2, 3, 2), (3, 2, 3)] if tier == "quick" else [(a, b, c) for a in range(1, 5) for b in range(1, 5) for c in range(1, 5)]
    for (nv, nh, na) in archs:
        for s, scale in ((seed, 1.0), (seed + 1, 3.0)):
            f = native_check({"nv": nv, "nh": nh, "na": na}, None, s, scale)
            n += 1
            if f:
                bad.append(((nv, nh, na, s, scale), f[:2]))
    for s in ((seed, seed + 1) if tier == "quick" else range(seed, seed + 6)):
        f = large_regime(s, 2, 2, 3 if s % 2 == 0 else 4)
        n += 1
        if f:
            bad.append((("large parameters", s), f[:2]))
    for via in ("deepcopy", "pickle"):
        f = native_check({"nv": 2, "nh": 2, "na": 2, "via": via}, None, seed + 7, 1.0)
        n += 1
        if f:
            bad.append(((2, 2, 2, via), f[:2]))
    return {"driver": "drivers/C02.native_check", "label": "bounded", "evaluations": n, "failures": len(bad),
            "bound": "float64, %d architectures x 2 random parameter draws; one state reached by deepcopy and one by a pickle round trip" % len(archs), "first_failures": bad[:2]}
