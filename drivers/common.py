"""Concrete (float64) helpers on the real code: used to replay counterexamples
and as labelled bounded stand-ins.  Nothing here counts as proof."""
import itertools
import re

import numpy as np
import torch

NETS = {"am": "rbm_am", "ph": "rbm_ph"}


VIA = [None]          # None | "deepcopy" | "pickle": how the object under test is reached (see `copied`)
_ORIGINALS = []
SYM_ORIG = [False]    # set by the lemmas (front end N): the original's parameters are symbols, not numbers


def copied(obj):
    """The properties speak about a state / network whatever its history.  With VIA set, the object handed to the
    harness is a copy (copy.deepcopy, or a pickle round trip) of another object whose parameters were set to
    unrelated non-zero numbers first; the harness then installs its own parameters in the copy.  Anything the copy
    still shares with - or looks up in - the original shows up as a value that is not a function of the copy's own
    parameters.  The original is kept alive."""
    how = VIA[0]
    if how is None:
        return obj
    import copy, pickle
    rng = np.random.default_rng(424242)
    mods = [(n, getattr(obj, n)) for n in obj.networks] if hasattr(obj, "networks") else [("rbm", obj)]
    for nm, m in mods:
        if SYM_ORIG[0] and how == "deepcopy":
            # under front end N the original holds symbols of its own, so that whatever leaks into the copy's results
            # is a symbol the contract does not mention (refuted with a witness) instead of a stray constant
            from qv import native as _N
            _N.symbolize(m, "original_object." + nm, frozen=False)
            continue
        for n, p in m.named_parameters():
            p.data = torch.tensor(rng.normal(0, 1.3, size=tuple(p.shape)), dtype=torch.double)
    _ORIGINALS.append(obj)
    if how == "pickle":
        try:
            return pickle.loads(pickle.dumps(obj))
        except (pickle.PicklingError, AttributeError, TypeError):
            pass        # no property promises that a state can be pickled: fall back to the other copy route
    return copy.deepcopy(obj)


def make_state(kind, nv, nh=None, na=None, unitary_dict=None):
    from qucumber.nn_states import PositiveWaveFunction, ComplexWaveFunction, DensityMatrix
    if kind == "positive":
        return copied(PositiveWaveFunction(nv, nh, gpu=False))
    if kind == "complex":
        return copied(ComplexWaveFunction(nv, nh, gpu=False, unitary_dict=unitary_dict))
    if kind == "mixed":
        return copied(DensityMatrix(nv, nh, na, gpu=False, unitary_dict=unitary_dict))
    raise ValueError(kind)


def randomize(state, rng, scale=1.0, zero_phase_aux=True):
    """All weights and ALL biases non-zero, both signs."""
    for net in state.networks:
        m = getattr(state, net)
        for n, p in m.named_parameters():
            p.data = torch.tensor(rng.normal(0, scale, size=tuple(p.shape)), dtype=torch.double)
        if zero_phase_aux and net == "rbm_ph" and hasattr(m, "aux_bias"):
            m.aux_bias.data.zero_()


def set_env(state, env):
    """env: 'am.weights[0,1]' -> float (names produced by qv.native.symbolize)."""
    for k, v in (env or {}).items():
        mm = re.match(r"^(am|ph)\.(\w+)\[([\d,]*)\]$", k)
        if not mm:
            continue
        net = NETS[mm.group(1)]
        if net not in state.networks:
            continue
        p = getattr(getattr(state, net), mm.group(2))
        idx = tuple(int(x) for x in mm.group(3).split(",")) if mm.group(3) else ()
        p.data[idx] = float(v)


def np_params(module):
    return {n: p.detach().numpy().copy() for n, p in module.named_parameters()}


def bits(n):
    return list(itertools.product((0, 1), repeat=n))


def marginal_np(par, v):
    """sum_h exp(-E(v,h)) by brute force, plain RBM (float)."""
    W, b, c = par["weights"], par["visible_bias"], par["hidden_bias"]
    v = np.asarray(v, dtype=float)
    tot = 0.0
    for h in bits(len(c)):
        h = np.asarray(h, dtype=float)
        tot += np.exp(b @ v + c @ h + h @ W @ v)
    return tot


def marginal_p_np(par, v, a=None):
    W, U = par["weights_W"], par["weights_U"]
    b, c, d = par["visible_bias"], par["hidden_bias"], par["aux_bias"]
    v = np.asarray(v, dtype=float)
    tot = 0.0
    auxs = [a] if a is not None else bits(len(d))
    for aa in auxs:
        aa = np.asarray(aa, dtype=float)
        for h in bits(len(c)):
            h = np.asarray(h, dtype=float)
            tot += np.exp(b @ v + c @ h + d @ aa + h @ W @ v + aa @ U @ v)
    return tot


def close(a, b, tol=1e-9):
    a, b = np.asarray(a), np.asarray(b)
    if a.shape != b.shape:
        return False
    return bool(np.all(np.abs(a - b) <= tol * (1 + np.abs(a) + np.abs(b))))


def at_freed_address(make_first, use_first, make_second, tries=400):
    """History regime 'an argument object that has been freed, and a different one created where it was': calls
    use_first(make_first()), drops the object, then builds objects with make_second() until one has the id() of the
    dropped one (CPython hands a freed block of the same size class out again at once, so this usually takes one try).
    Returns that object, or None when the address did not come back (the regime is then skipped, never failed)."""
    import gc
    a = make_first()
    use_first(a)
    ida = id(a)
    del a
    gc.collect()
    held = []
    for _ in range(tries):
        b = make_second()
        if id(b) == ida:
            del held
            return b
        held.append(b)
    del held
    return None
