"""C18 — early stopping halts exactly when its documented convergence rule is met (front end A)."""
import warnings

import z3

from qv import astvc as A
from qv.astvc import VC, AND, OR, NOT, ITE
from contracts.ghosts import GhostState, GhostEvaluator

LEVEL = "proof"
MANIFEST = {
    "engine": "qv-astvc",
    "category": "proof",
    "technique": "contracts on EarlyStopping (constructor, deviation helpers, on_epoch_end) and VarianceBasedEarlyStopping; current source recompiled in a sandbox and executed on symbolic period / patience / tolerance / epoch / history (z3 array of symbolic length); obligations discharged by z3",
    "text": "on_epoch_end is executed for symbolic period >= 1, patience >= 1, tolerance >= 0, epoch and an evaluation history of symbolic length L with symbolic real values (and variances): training is stopped iff the epoch is a multiple of the period, at least patience+1 evaluations exist and the selected deviation between evaluation L-1 and evaluation L-1-patience is below the tolerance; then last_epoch is the epoch and stop_training is set to True, otherwise nothing is written; no IndexError / ZeroDivisionError can be raised. The constructor table (criteria, evaluator kinds, rejections) and the deprecated variance class are decided on the real classes.",
    "note": "mathematical integers and reals (floats as reals); numpy float division by zero modelled as inf/nan (comparison false), python float division by zero as ZeroDivisionError; first-epoch semantics follows with C12's event protocol",
}
EXPLANATION = "symbolic history as a z3 array; re-execution forking over every branch of the real source"
TRUSTED = ["z3 array theory for the evaluation history", "user evaluators behave as a sequence with python negative indexing (get_value contract)"]


def configs(tier):
    out = [{"part": "rule", "criterion": c, "evaluator": e} for (c, e) in
           (("relative", "metric"), ("absolute", "metric"), ("relative", "observable"), ("absolute", "observable"), ("variance", "observable"))]
    out.append({"part": "constructor"})
    out.append({"part": "non-finite"})
    # the rule is proved against the evaluators' contract (records = completed evaluations, in order, one per scheduled
    # epoch; accessors); that the real evaluators meet it is C17's obligation set, shared here because the statement
    # depends on it
    out += [{"part": "evaluator-contract", "cb": "MetricEvaluator"}, {"part": "evaluator-contract", "cb": "ObservableEvaluator"},
            {"part": "evaluator-contract", "cb": "accessors"}]
    return out


def canaries(tier):
    return [({"part": "rule", "criterion": "absolute", "evaluator": "metric"}, "spec-lookback-off-by-one")]


def run_config(ctx, cfg):
    if cfg["part"] == "evaluator-contract":
        from lemmas import C17
        return C17.run_config(ctx, {"cb": cfg["cb"]})
    if cfg["part"] == "non-finite":
        return _non_finite(ctx)
    if cfg["part"] == "rule":
        return _rule(ctx, cfg)
    return _constructor(ctx)


def _rule(ctx, cfg):
    from qucumber.callbacks import EarlyStopping
    canary = getattr(ctx, "canary", None)
    crit, kind = cfg["criterion"], cfg["evaluator"]
    vc = VC(ctx)
    ES = A.sandbox_class(EarlyStopping, vc)
    ctx.rewritten = ES._vc_rewritten
    ctx.under_contract("EarlyStopping.__init__", "EarlyStopping._change_in_metric", "EarlyStopping._relative_change",
                       "EarlyStopping._absolute_change", "EarlyStopping._variance_scaled_abs_change", "EarlyStopping.on_epoch_end")
    ctx.stub("evaluator.get_value", "evaluator.__len__", "nn_state.stop_training")

    def run():
        period = vc.fresh_int("period", 1)
        patience = vc.fresh_int("patience", 1)
        tol = vc.fresh_real("tolerance")
        vc.assume(tol >= 0)
        L = vc.fresh_int("L", 0)
        epoch = vc.fresh_int("epoch")
        ev = GhostEvaluator(vc, kind, L)
        # variances reported by the library are >= 0 (var_mean contract)
        j = z3.Int("j")
        vc.pc.append(z3.ForAll([j], z3.Select(ev.vars_, j) >= 0))
        vc.witness_terms = {"period": period.e, "patience": patience.e, "tolerance": tol.e, "L": L.e, "epoch": epoch.e}
        for i in range(10):
            vc.witness_terms["m[%d]" % i] = z3.Select(ev.vals, i)
            vc.witness_terms["var[%d]" % i] = z3.Select(ev.vars_, i)
        es = ES(period, tol, patience, ev, "quantity", criterion=crit)
        state = GhostState(stop=False)
        # the run begins (train_start) while the evaluator may already hold any number of records - a second fit, a run
        # continued with starting_epoch - and the rule looks at the whole record
        L0 = vc.fresh_int("L_at_train_start", 0)
        vc.assume(L0 <= L)
        ev.L = L0
        es.on_train_start(state)
        es.on_epoch_start(state, epoch)
        ev.L = L
        es.on_epoch_end(state, epoch)
        did = len(state.stop_writes) > 0
        p = patience + (0 if canary != "spec-lookback-off-by-one" else 1)
        ref, cur = ev.value(L - 1 - p), ev.value(L - 1)
        delta = ref - cur
        absd = ITE(delta >= 0, delta, -delta)
        if crit == "absolute":
            small = absd < tol
        elif crit == "relative":
            # |delta / ref|; a zero reference has no finite relative deviation unless nothing changed
            small = ITE(ref != 0, ITE(ref > 0, absd < tol * ref, absd < -tol * ref), AND(delta == 0, 0 < tol))
        else:
            var = ev.variance(L - 1 - p)
            small = AND(var > 0, absd * absd < tol * tol * var)
        should = AND(epoch % period == 0, L >= p + 1, small)
        vc.check("on_epoch_end/stops iff (epoch %% period == 0 and L >= patience+1 and deviation(m[L-1-patience], m[L-1]) < tolerance)",
                 should == did if isinstance(should == did, A.Sym) else bool(should) == did)
        vc.check("on_epoch_end/stop request is exactly `stop_training = True`, written once", (state.stop_writes == [True]) if did else (state.stop_writes == []))
        vc.check("on_epoch_end/last_epoch is the stopping epoch (None while running)",
                 (es.last_epoch is epoch) if did else (es.last_epoch is None))
        vc.check("on_epoch_end/nothing else written to the state", state.other_writes == [])
        # history: the evaluator's record changes arbitrarily (cleared and refilled between runs, or simply longer) and
        # the same stopper is asked again: only the current record counts
        L2 = vc.fresh_int("L2", 0)
        epoch2 = vc.fresh_int("epoch2")
        ev.L = L2
        ev.vals = z3.Array("m2_%d" % id(ev), z3.IntSort(), z3.RealSort())
        ev.vars_ = z3.Array("var2_%d" % id(ev), z3.IntSort(), z3.RealSort())
        vc.pc.append(z3.ForAll([j], z3.Select(ev.vars_, j) >= 0))
        state2 = GhostState(stop=False)
        es.on_epoch_end(state2, epoch2)
        did2 = len(state2.stop_writes) > 0
        ref2, cur2 = ev.value(L2 - 1 - p), ev.value(L2 - 1)
        delta2 = ref2 - cur2
        absd2 = ITE(delta2 >= 0, delta2, -delta2)
        if crit == "absolute":
            small2 = absd2 < tol
        elif crit == "relative":
            small2 = ITE(ref2 != 0, ITE(ref2 > 0, absd2 < tol * ref2, absd2 < -tol * ref2), AND(delta2 == 0, 0 < tol))
        else:
            var2 = ev.variance(L2 - 1 - p)
            small2 = AND(var2 > 0, absd2 * absd2 < tol * tol * var2)
        should2 = AND(epoch2 % period == 0, L2 >= p + 1, small2)
        vc.check("history/a later call decides from the current record only (after clear_history, a second run, ...)",
                 should2 == did2 if isinstance(should2 == did2, A.Sym) else bool(should2) == did2)
    vc.explore(run, "criterion=%s evaluator=%s" % (crit, kind))
    vc.flush()
    ctx.holds("exploration/paths > 0", vc.paths > 0, str(vc.paths))


def _non_finite(ctx):
    """The reals of the symbolic run have no NaN / inf.  Records that hold them (a diverged loss, inf - inf, a constant
    observable: zero variance and unchanged mean, 0/0) are decided here on the real class with numbers: training stops
    iff the deviation, computed in IEEE arithmetic, *is smaller than* the tolerance - an undefined deviation never is."""
    import warnings
    import numpy as np
    from contracts.ghosts import GhostState
    from qucumber.callbacks import EarlyStopping, MetricEvaluator, ObservableEvaluator
    from qucumber.observables import SigmaZ
    ctx.under_contract("EarlyStopping.on_epoch_end", "EarlyStopping._relative_change", "EarlyStopping._absolute_change", "EarlyStopping._variance_scaled_abs_change")
    nan, inf = float("nan"), float("inf")

    def deviation(crit, ref, cur, var):
        ch = ref - cur
        if crit == "absolute":
            return abs(ch)
        if crit == "relative":
            if ref == 0:
                return 0.0 if ch == 0 else inf
            return abs(ch / ref)
        with np.errstate(all="ignore"):
            return float(abs(ch) / np.sqrt(var))
    seqs = [("nan in the middle", [1.0, nan, 0.5, 0.5, 0.5], [1.0] * 5), ("nan reference", [nan, 1.0, 1.0], [1.0] * 3), ("nan current", [1.0, 1.0, nan], [1.0] * 3),
            ("inf - inf", [inf, inf, inf], [1.0] * 3), ("inf reference", [inf, 1.0, 1.0], [1.0] * 3), ("-inf then finite", [-inf, 2.0, 2.0], [1.0] * 3),
            ("constant observable: zero variance, unchanged mean", [0.25, 0.25, 0.25], [0.0] * 3), ("zero variance, changed mean", [0.25, 0.5, 0.75], [0.0] * 3),
            ("nan variance", [0.25, 0.25, 0.25], [nan] * 3), ("finite control", [1.0, 0.99, 0.985], [0.04] * 3)]
    with warnings.catch_warnings():
        warnings.simplefilter("ignore")
        for crit in ("absolute", "relative", "variance"):
            for tag, vals, vars_ in seqs:
                for patience in (1, 2):
                    for tol in (0.1, inf, 0.0):
                        if crit == "variance":
                            ev = ObservableEvaluator(1, [SigmaZ()])
                            ev.past_values = [(i + 1, {"SigmaZ": {"mean": v, "variance": w, "std_error": 0.0, "num_samples": 10}}) for i, (v, w) in enumerate(zip(vals, vars_))]
                            name = "SigmaZ"
                        else:
                            ev = MetricEvaluator(1, {"m": lambda s: 0.0})
                            ev.past_values = [(i + 1, {"m": v}) for i, v in enumerate(vals)]
                            name = "m"
                        es = EarlyStopping(1, tol, patience, ev, name, criterion=crit)
                        st_ = GhostState(stop=False)
                        es.on_epoch_end(st_, len(vals))
                        did = len(st_.stop_writes) > 0
                        if len(vals) > patience:
                            dv = deviation(crit, vals[-patience - 1], vals[-1], vars_[-patience - 1])
                            want = bool(dv < tol)
                        else:
                            dv, want = None, False
                        ctx.holds("non-finite/%s criterion, %s, patience %d, tolerance %r: stops iff the deviation is smaller than the tolerance" % (crit, tag, patience, tol),
                                  did == want, "deviation %r, stopped=%s" % (dv, did))


def _constructor(ctx):
    from qucumber.callbacks import EarlyStopping, VarianceBasedEarlyStopping, MetricEvaluator, ObservableEvaluator
    from qucumber.observables import SigmaZ
    ctx.under_contract("EarlyStopping.__init__", "VarianceBasedEarlyStopping.__init__")
    me = MetricEvaluator(1, {"m": lambda s: 0.0})
    oe = ObservableEvaluator(1, [SigmaZ()])
    table = {"relative": "_relative_change", "absolute": "_absolute_change", "variance": "_variance_scaled_abs_change"}
    for ev, evname in ((me, "metric"), (oe, "observable")):
        for text, key in ((" Relative ", "relative"), ("ABSOLUTE", "absolute"), ("absolute\n", "absolute"), ("Variance", "variance"), ("relative", "relative")):
            try:
                es = EarlyStopping(2, 0.1, 3.0, ev, "m" if evname == "metric" else "SigmaZ", criterion=text)
                ok = key != "variance" or evname == "observable"
                ok = ok and es.criterion == key and es.deviation.__func__ is getattr(EarlyStopping, table[key]) and es.patience == 3 \
                    and isinstance(es.patience, int) and es.period == 2 and es.last_epoch is None and es.evaluator_callback is ev
                ctx.holds("constructor/criterion %r with %s evaluator" % (text, evname), ok)
            except TypeError:
                ctx.holds("constructor/criterion %r with %s evaluator" % (text, evname), key == "variance" and evname == "metric",
                          "TypeError raised")
        try:
            EarlyStopping(1, 0.1, 1, ev, "m", criterion="bogus")
            ctx.holds("constructor/unknown criterion rejected (%s)" % evname, False)
        except ValueError:
            ctx.holds("constructor/unknown criterion rejected (%s)" % evname, True)
    try:
        EarlyStopping(1, 0.1, 1, object(), "m")
        ctx.holds("constructor/non-evaluator rejected", False)
    except TypeError:
        ctx.holds("constructor/non-evaluator rejected", True)
    with warnings.catch_warnings(record=True) as w:
        warnings.simplefilter("always")
        vb = VarianceBasedEarlyStopping(2, 0.5, 4, oe, "SigmaZ")
    ref = EarlyStopping(2, 0.5, 4, oe, "SigmaZ", criterion="variance")
    ctx.holds("deprecated class == variance criterion", vb.criterion == "variance" and vb.deviation.__func__ is ref.deviation.__func__
              and (vb.period, vb.tolerance, vb.patience, vb.quantity_name) == (ref.period, ref.tolerance, ref.patience, ref.quantity_name)
              and isinstance(vb, EarlyStopping) and any(issubclass(x.category, DeprecationWarning) for x in w))
    try:
        with warnings.catch_warnings():
            warnings.simplefilter("ignore")
            VarianceBasedEarlyStopping(1, 0.1, 1, me, "m")
        ctx.holds("deprecated class refuses plain metrics", False)
    except TypeError:
        ctx.holds("deprecated class refuses plain metrics", True)
    for form, mk in (("positional", lambda: VarianceBasedEarlyStopping(1, 0.1, 1, me, "m", "m")),
                     ("keyword", lambda: VarianceBasedEarlyStopping(1, 0.1, 1, me, "m", variance_name="m")),
                     ("all keywords", lambda: VarianceBasedEarlyStopping(period=1, tolerance=0.1, patience=1, evaluator_callback=me, quantity_name="m", variance_name="v"))):
        try:
            with warnings.catch_warnings():
                warnings.simplefilter("ignore")
                mk()
            ctx.holds("deprecated class refuses plain metrics also when a variance_name is given (%s), as the variance criterion does" % form, False)
        except TypeError:
            ctx.holds("deprecated class refuses plain metrics also when a variance_name is given (%s), as the variance criterion does" % form, True)
    with warnings.catch_warnings():
        warnings.simplefilter("ignore")
        vb2 = VarianceBasedEarlyStopping(2, 0.5, 4, oe, "SigmaZ", "ignored")
    ctx.holds("deprecated class with a variance_name == variance criterion", vb2.criterion == "variance" and vb2.deviation.__func__ is ref.deviation.__func__
              and vb2.quantity_name == "SigmaZ")


def replay(o):
    if o["cfg"].get("part") == "evaluator-contract":
        from drivers import C17 as D17
        return D17.replay({"cb": o["cfg"]["cb"]})
    from drivers import C18 as D
    return D.replay(o["cfg"], (o.get("witness") or {}).get("model") or {}, o.get("short") or "")
