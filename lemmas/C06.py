"""C06 — each training step applies exactly the contrastive-divergence update (front ends N + A)."""
import numpy as np
import torch

from qv import alg, native as N, symtensor as st, astvc as A
from qv.alg import ZERO, ONE
from qv.astvc import VC
from contracts import fitworld as FW

LEVEL = "proof"
MANIFEST = {
    "engine": "qv-astvc+qv-native+qv-gen",
    "category": "proof",
    "technique": "contracts on compute_batch_gradients (base and PositiveWaveFunction override; real body on symbolic tensors with opaque callee stubs), vector_to_grads (real body on the real parameter lists, symbolic vector) and the batch loop of fit (sandbox recompilation, Hoare cut points, ghost optimizer / scheduler log); obligations by normal form and z3",
    "text": "compute_batch_gradients is executed with positive_phase_gradients, gibbs_steps and effective_energy_gradient replaced by opaque contract values: gibbs_steps is called once with (k, negative batch) on the amplitude network, the amplitude gradient is P0 - G(v_k)/|negative batch| and the phase gradient is the positive phase only. vector_to_grads is executed on the real parameter lists of every architecture with a vector of distinct symbols: parameter p receives exactly vec[off(p):off(p)+numel(p)] reshaped, with off from the real parameters() order. In fit (symbolic epochs, N, batch sizes, k) every batch performs exactly: gradients of this batch, zero_grad, one gradient write per network in order, one step — between that batch's batch_start and batch_end; the optimizer is built once over all parameters with the requested lr; the scheduler is advanced exactly once per epoch after the batch loop and before epoch_end. Additionally (front end G) compute_batch_gradients without bases is executed on tensors of symbolic shape for all three kinds of state with gibbs_steps replaced by its contract: data-batch mean minus negative-batch mean of the energy gradients, piece by piece, for every size.",
    "note": "torch.optim.SGD.step (p <- p - lr * p.grad) and lr_scheduler.step are trusted library contracts (bounded driver compares a real training step with the formula); gibbs_steps / positive phase / energy gradient have their own contracts (C05, C03); the shape-generic part (front end G) holds for all sizes and values, equalities decided by tensor-algebra normal form (sound, incomplete: a miss is undecided, never a violation without a replayed witness)",
}
EXPLANATION = "opaque UF stubs isolate compute_batch_gradients' own arithmetic; ghost optimizer log with batch tokens for the loop"
TRUSTED = ["torch.optim.SGD.step: p <- p - lr * p.grad for every parameter with a gradient", "lr_scheduler.step advances the schedule by one epoch"]


def configs(tier):
    out = []
    for kind in ("positive", "complex", "mixed"):
        out.append({"part": "batch-gradients", "kind": kind})
        out.append({"part": "vector_to_grads", "kind": kind, "arch": [2, 3, 2]})
        out.append({"part": "vector_to_grads", "kind": kind, "arch": [3, 1, 1]})
    for nets in (["rbm_am"], ["rbm_am", "rbm_ph"]):
        for sched in (False, True):
            out.append({"part": "fit", "nets": nets, "bases": len(nets) == 2, "scheduler": sched, "data": "tensor"})
    for kind in ("complex", "mixed"):
        out.append({"part": "batch-gradients", "kind": kind, "via": "deepcopy"})     # a copied state (checkpoint-while-training)
    # a checkpoint restored while a run is in progress (load from a callback): the update rule needs the optimizer's
    # parameter objects to stay the state's - load's contract (C11's obligation set), shared here
    out.append({"part": "callee-load", "kind": "complex"})
    # the negative phase is k steps of the Gibbs kernel whatever torch's training flag of the network says (an evaluation
    # callback may have called .eval()): the kernel's contract (C05's obligation set), shared here
    out.append({"part": "callee-kernel", "rbm": "binary", "nv": 2, "nh": 1, "module_mode": "eval"})
    out.append({"part": "callee-kernel", "rbm": "purification", "nv": 1, "nh": 1, "na": 1, "module_mode": "eval"})
    out.append({"generic": "every shape"})
    out.append({"independence": "complex"})
    out.append({"independence": "mixed"})
    out.append({"part": "second-fit", "nets": ["rbm_am"], "bases": False, "scheduler": True, "data": "tensor"})
    return out


def canaries(tier):
    return [({"part": "batch-gradients", "kind": "complex"}, "spec-divides-by-positive-batch-size"),
            ({"part": "vector_to_grads", "kind": "mixed", "arch": [2, 3, 2]}, "spec-wrong-offsets")]


def _second_fit(ctx, cfg):
    """History: fit, then fit again on the SAME state object with the SAME optimizer class, another learning rate and an
    arbitrary starting_epoch (continuing a run): every step of the second call is taken by an optimizer built by that
    call from its own learning rate and arguments, and all per-batch obligations hold again."""
    from qucumber.nn_states.neural_state import NeuralStateBase
    from contracts import fitworld as FW
    from qv.astvc import VC
    vc = VC(ctx)
    ctx.under_contract("NeuralStateBase.fit")

    def run():
        w1 = FW.FitWorld(vc, "none", cfg["nets"], cfg["bases"], cfg["scheduler"], cfg["data"])
        vc.assume(w1.epochs < w1.starting_epoch)           # first run: set-up only (the optimizer is built), no epoch
        f1, _r = FW.make_sandbox(vc, w1, NeuralStateBase.fit, NeuralStateBase)
        w1.user_may_stop = lambda event: None
        _ret, me, _d = FW.run_fit(vc, w1, f1)
        w2 = FW.FitWorld(vc, "C06", cfg["nets"], cfg["bases"], cfg["scheduler"], cfg["data"])
        w2.user_may_stop = lambda event: None
        f2, _r = FW.make_sandbox(vc, w2, NeuralStateBase.fit, NeuralStateBase)
        FW.run_fit(vc, w2, f2, me=me)
        w2.check("C06", "second fit/an optimizer was built by this call", w2.optimizer_obj is not None and w2.optimizer_obj is not w1.optimizer_obj)
    vc.explore(run, "second fit")
    vc.flush()
    ctx.holds("exploration/paths > 0", vc.paths > 0)


def run_config(ctx, cfg):
    if cfg.get("independence"):
        # the amplitude and the phase network are independent objects on every construction route (also module=): what one
        # network holds never follows the other
        from lemmas import C20
        return C20._module(ctx, {"kind": cfg["independence"]})
    if cfg.get("generic"):
        from contracts import gsets
        return gsets.run(ctx, "C06")
    if cfg.get("part") == "callee-load":
        from lemmas import C11
        return C11._load(ctx, {"fn": "load", "kind": cfg["kind"]})
    if cfg.get("part") == "callee-kernel":
        from lemmas import C05
        from drivers import common as _DC
        _DC.VIA[0], _DC.SYM_ORIG[0] = None, True
        sub_cfg = {k: v for k, v in cfg.items() if k != "part"}
        return (C05._binary if cfg["rbm"] == "binary" else C05._purification)(ctx, sub_cfg)
    if cfg.get("part") == "second-fit":
        return _second_fit(ctx, cfg)
    if cfg["part"] == "fit":
        from lemmas import C12
        return C12.fit_part(ctx, cfg, prop="C06")
    if cfg["part"] == "batch-gradients":
        return _batch_gradients(ctx, cfg)
    return _vector_to_grads(ctx, cfg)


def _vec(prefix, n, net=""):
    a = np.empty((n,), dtype=object)
    for i in range(n):
        a[i] = alg.uf("%s%s[%d]" % (prefix, net, i))
    return a


def _batch_gradients(ctx, cfg):
    from drivers import common as DC
    canary = getattr(ctx, "canary", None)
    kind = cfg["kind"]
    state = DC.make_state(kind, 2, 2, 1)
    nets = state.networks
    npar = [getattr(state, n).num_pars for n in nets]
    ctx.under_contract("NeuralStateBase.compute_batch_gradients", "%s.compute_batch_gradients" % type(state).__name__)
    ctx.stub("positive_phase_gradients", "gibbs_steps", "effective_energy_gradient")
    calls = []
    P = [_vec("P", npar[i], str(i)) for i in range(len(nets))]
    G = _vec("G", npar[0])
    VK = object()

    def pos_stub(samples, bases_batch=None):
        calls.append(("pos", samples, bases_batch))
        return [st.SymTensor(p.copy()) for p in P]

    def grad_stub(samples, bases=None):
        # contract of gradient(): the un-normalised sum, i.e. |batch| times the positive phase
        calls.append(("pos", samples, bases))
        return [st.SymTensor(p.copy() * samples.shape[0]) for p in P]

    def gibbs_stub(k, v0, overwrite=False):
        calls.append(("gibbs", k, v0, overwrite))
        return VK

    def eeg_stub(v, reduce=True):
        calls.append(("eeg", v, reduce))
        return st.SymTensor(G.copy())
    for (bp, bn) in ((4, 4), (4, 3), (2, 5), (1, 1)):
        samples = torch.zeros(bp, 2, dtype=torch.double)
        neg = torch.ones(bn, 2, dtype=torch.double)
        neg_keep = neg.clone()
        bases = None if kind == "positive" else np.array([list("XZ")] * bp)
        del calls[:]
        with N.stubbed(state, "positive_phase_gradients", pos_stub), N.stubbed(state, "gradient", grad_stub), N.stubbed(state.rbm_am, "gibbs_steps", gibbs_stub), \
                N.stubbed(state.rbm_am, "effective_energy_gradient", eeg_stub):
            k = 3
            if kind == "positive":
                g = state.compute_batch_gradients(k, samples, neg)
                g2 = state.compute_batch_gradients(k, samples, neg, "ignored")
            else:
                g = state.compute_batch_gradients(k, samples, neg, bases)
                g2 = None
        tag = "[pos=%d neg=%d]" % (bp, bn)
        gib = [c for c in calls if c[0] == "gibbs"]
        first = calls[:3]
        pc = [c for c in first if c[0] == "pos"]
        gc = [c for c in first if c[0] == "gibbs"]
        ec = [c for c in first if c[0] == "eeg"]
        ctx.holds("compute_batch_gradients/positive phase of exactly this batch and its bases" + tag,
                  len(pc) == 1 and pc[0][1] is samples and (pc[0][2] is bases))
        ctx.holds("compute_batch_gradients/k Gibbs steps from the negative batch, once, on the amplitude network, without overwriting it" + tag,
                  len(gc) == 1 and gc[0][:3] == ("gibbs", k, neg) and gc[0][3] is False and torch.equal(neg, neg_keep))
        ctx.holds("compute_batch_gradients/energy gradient of the states reached by the chain, summed" + tag,
                  len(ec) == 1 and ec[0][1] is VK and ec[0][2] is True)
        ctx.holds("compute_batch_gradients/one gradient per network" + tag, isinstance(g, list) and len(g) == len(nets))
        div = bp if canary == "spec-divides-by-positive-batch-size" else bn
        for j in range(npar[0]):
            ctx.eq("compute_batch_gradients/amplitude == positive - G(v_k)/|negative batch|%s[%d]" % (tag, j), st._obj(g[0])[j] * div, P[0][j] * div - G[j])
        if len(nets) > 1:
            for j in range(npar[1]):
                ctx.eq("compute_batch_gradients/phase == positive phase only%s[%d]" % (tag, j), st._obj(g[1])[j], P[1][j])
        if g2 is not None:
            ctx.eq_arrays("compute_batch_gradients/positive override ignores extra arguments" + tag, g2[0], g[0], z3_confirm=False)


def _vector_to_grads(ctx, cfg):
    from drivers import common as DC
    from qucumber.utils.gradients_utils import vector_to_grads
    canary = getattr(ctx, "canary", None)
    kind, arch = cfg["kind"], cfg["arch"]
    state = DC.make_state(kind, *arch)
    ctx.under_contract("gradients_utils.vector_to_grads")
    # the layout of the gradient vectors (effective_energy_gradient, gamma_grad, pi_grad: C03) is weights first, then the
    # biases; vector_to_grads slices by parameters() order, so that order must be this layout - for a fresh state and
    # after the parameters were re-initialised (history)
    layout = ["weights", "visible_bias", "hidden_bias"] if kind != "mixed" else ["weights_W", "weights_U", "visible_bias", "hidden_bias", "aux_bias"]
    for hist in ("fresh", "after reinitialize_parameters", "after a second reinitialize_parameters"):
        if hist != "fresh":
            state.reinitialize_parameters()
        for net in state.networks:
            names_now = [nm for nm, _p in getattr(state, net).named_parameters()]
            ctx.holds("layout/%s: parameters() order of %s is the gradient vector's layout %s" % (hist, net, layout), names_now == layout, str(names_now))
            ctx.holds("layout/%s: num_pars of %s is the total number of entries" % (hist, net),
                      getattr(state, net).num_pars == sum(p.numel() for p in getattr(state, net).parameters()))
    for net in state.networks:
        rbm = getattr(state, net)
        n = rbm.num_pars
        vec = st.SymTensor(_vec("v", n, net))
        before = {nm: p.detach().clone() for nm, p in rbm.named_parameters()}
        vector_to_grads(vec, rbm.parameters())
        off = 0
        names = [nm for nm, _p in rbm.named_parameters()]
        if canary == "spec-wrong-offsets":
            names = names[::-1]
        pars = dict(rbm.named_parameters())
        total = 0
        for nm in names:
            p = pars[nm]
            k = p.numel()
            g = p.grad
            ctx.holds("vector_to_grads/%s.%s.grad has the parameter's shape" % (net, nm), g is not None and tuple(g.shape) == tuple(p.shape))
            if g is not None and tuple(g.shape) == tuple(p.shape):
                flat = st._obj(g).reshape(-1)
                for j in range(k):
                    ctx.eq("vector_to_grads/%s.%s.grad[%d] == vec[offset + %d] (parameters() order)" % (net, nm, j, j), flat[j], vec._arr[off + j], z3_confirm=False)
            off += k
            total += k
            ctx.holds("vector_to_grads/%s.%s value untouched" % (net, nm), torch.equal(p.detach(), before[nm]))
        ctx.holds("vector_to_grads/%s consumes the whole vector (num_pars == sum numel)" % net, total == n)
    try:
        vector_to_grads([1.0, 2.0], state.rbm_am.parameters())
        ctx.holds("vector_to_grads/non-tensor rejected", False)
    except TypeError:
        ctx.holds("vector_to_grads/non-tensor rejected", True)


def replay(o):
    if o["cfg"].get("part") == "callee-kernel":
        from lemmas import C05
        o2 = dict(o)
        o2["cfg"] = {k: v for k, v in o["cfg"].items() if k != "part"}
        return C05.replay(o2)
    if o["cfg"].get("independence"):
        from drivers import C20 as D20
        return D20.replay({"part": "module", "kind": o["cfg"]["independence"]})
    if o["cfg"].get("generic"):
        from contracts import gsets
        return gsets.replay("C06", o)
    from drivers import C06 as D
    return D.replay(o["cfg"])
