#!/bin/bash
# tools/benigncheck.sh <dir-with-benign_k.diff> "<props>" : apply each benign refactoring to a scratch worktree and
# run the listed checks; every check must exit 0 (no false alarm).  Prints one line per (patch, property).
set -u
DIR=$1; PROPS=$2
for P in $DIR/benign_*.diff; do
  [ -s "$P" ] || continue
  WT=$(mktemp -d /tmp/vfben.XXXXXX); rmdir $WT
  git -C /repo worktree add -q --detach $WT HEAD || exit 3
  ( cd $WT && git apply $P ) || { echo "$(basename $P): does not apply"; git -C /repo worktree remove --force $WT; continue; }
  for Q in $PROPS; do
    mkdir -p $WT/.vf
    ( cd /verif && QUCUMBER_REPO=$WT VF_EVIDENCE_DIR=$WT/.vf/ev VF_REPLAY_DIR=$WT/.vf/replay timeout 3000 ./vf check $Q --tier quick > $WT/.vf/$Q.log 2>&1 ); RC=$?
    if [ $RC -ne 0 ]; then
      echo "$(basename $P) $Q exit=$RC  $(grep -E '^(VIOLATION|UNDECIDED|DEAD|CHECKER)' $WT/.vf/$Q.log | head -2 | cut -c1-260 | tr '\n' '|')"
    else
      echo "$(basename $P) $Q ok"
    fi
  done
  git -C /repo worktree remove --force $WT
done
