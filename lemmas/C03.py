"""C03 — training gradients are the exact gradients of the negative log-likelihood (front end N).

Derivatives on the spec side are taken by the algebra's exact differentiation of
the *contract values* of the callees (effective energies, psi, rho — proved equal
to the Born-rule definitions in C01 / C02 / C04), so every gradient entry is
compared with the true partial derivative with respect to the parameter that
training writes it to (offsets from the real module's named_parameters() order).
"""
import itertools

import numpy as np
import torch

from qv import alg, native as N, symtensor as st
from qv.alg import I, ZERO, ONE
from contracts import rbm as R, unitary as U

LEVEL = "proof"
MANIFEST = {
    "engine": "qv-native+qv-gen",
    "category": "proof",
    "technique": "contracts on every gradient routine, bodies executed on symbolic parameters and compared with exact symbolic derivatives of the callees' contract values; grouping logic proved with opaque per-row stubs; obligations by exp-polynomial normal form and z3",
    "text": "effective_energy_gradient (both RBMs, reduce on/off, 1-D), gamma_grad, pi_grad, am_grads/ph_grads and rotated_gradient of the complex and mixed states are each executed on symbolic parameters and must equal, entry by entry in named_parameters() order, the exact derivative of the effective energy / gamma / pi / minus log rotated Born probability (mixed: minus dP/(P+1e-8)). gradient()'s grouping by basis (np.unique, masks, all-Z fast path, 1-D form) is proved with the per-group callees stubbed by opaque per-row terms: any multiset of basis strings, row order and split gives the sum of per-row terms; positive_phase_gradients is that sum over B; compute_exact_gradients is positive phase minus the exact model average. The NLL lemma is discharged end to end for small sizes, and every public gradient method of PositiveWaveFunction must be callable and agree. Additionally (front end G) the reduced effective_energy_gradient of both RBMs equals minus the batch sum of the per-sample derivatives for every size.",
    "note": "floats as reals; the 1e-8 regulariser is the exact rational of the float; shapes enumerated (quick nv<=2, thorough nv<=3 with all 3^n strings and seeded nv=4 strings for the grouping part); values unbounded; the shape-generic part (front end G) holds for all sizes and values, equalities decided by tensor-algebra normal form (sound, incomplete: a miss is undecided, never a violation without a replayed witness)",
}
EXPLANATION = "exact symbolic differentiation (qv.alg.diff) of contract values; offsets from the real module's named_parameters()"
TRUSTED = ["exact differentiation rules of qv/alg.py (each atom's derivative from its definition)"]


def configs(tier):
    out = []
    q = tier == "quick"
    for a in ([(1, 1), (2, 2), (2, 1)] if q else [(1, 1), (2, 2), (2, 3), (3, 2), (3, 3), (4, 2)]):
        out.append({"part": "energy-grad", "rbm": "binary", "arch": list(a)})
    for a in ([(1, 1, 1), (2, 1, 2)] if q else [(1, 1, 1), (2, 1, 2), (2, 2, 2), (3, 2, 2), (2, 3, 3)]):
        out.append({"part": "energy-grad", "rbm": "purification", "arch": list(a)})
    for a in ([(1, 1, 1), (2, 1, 1)] if q else [(1, 1, 1), (2, 1, 1), (2, 2, 2), (1, 2, 3)]):
        out.append({"part": "gamma-pi-grad", "arch": list(a)})
    carch = [(1, 1), (2, 1)] if q else [(1, 1), (2, 1), (2, 2), (3, 1)]
    for a in carch:
        n = a[0]
        for b in itertools.product("XYZ", repeat=n):
            if set(b) == {"Z"}:
                continue
            out.append({"part": "rotated", "kind": "complex", "arch": list(a), "basis": "".join(b)})
    marc = [(1, 1, 1), (2, 1, 1)] if q else [(1, 1, 1), (2, 1, 1), (2, 2, 1), (2, 1, 2)]
    for a in marc:
        n = a[0]
        for b in itertools.product("XYZ", repeat=n):
            if set(b) == {"Z"}:
                continue
            out.append({"part": "rotated", "kind": "mixed", "arch": list(a), "basis": "".join(b)})
    for kind in ("positive", "complex", "mixed"):
        for n in ((1, 2) if q else (1, 2, 3, 4)):
            out.append({"part": "grouping", "kind": kind, "n": n})
    out.append({"part": "positive-api"})
    for kind, a in ([("positive", (2, 1)), ("complex", (1, 1)), ("mixed", (1, 1, 1))] if q else
                    [("positive", (2, 2)), ("positive", (3, 2)), ("complex", (1, 1)), ("complex", (2, 1)), ("mixed", (1, 1, 1)), ("mixed", (2, 1, 1))]):
        out.append({"part": "end-to-end", "kind": kind, "arch": list(a)})
    # the same obligations on objects reached as copies of other objects (copy.deepcopy / pickle round trip)
    out.append({"part": "energy-grad", "rbm": "binary", "arch": [2, 1], "via": "deepcopy"})
    out.append({"part": "energy-grad", "rbm": "purification", "arch": [1, 1, 1], "via": "deepcopy"})
    out.append({"part": "gamma-pi-grad", "arch": [1, 1, 1], "via": "deepcopy"})
    out.append({"part": "rotated", "kind": "complex", "arch": [1, 1], "basis": "Y", "via": "deepcopy"})
    out.append({"part": "rotated", "kind": "complex", "arch": [2, 1], "basis": "XZ", "via": "pickle"})
    out.append({"part": "rotated", "kind": "mixed", "arch": [1, 1, 1], "basis": "X", "via": "deepcopy"})
    out.append({"part": "end-to-end", "kind": "complex", "arch": [1, 1], "via": "deepcopy"})
    out.append({"part": "end-to-end", "kind": "mixed", "arch": [1, 1, 1], "via": "deepcopy"})
    out.append({"generic": "every shape"})
    return out


def canaries(tier):
    return [({"part": "energy-grad", "rbm": "binary", "arch": [2, 1]}, "spec-layout-biases-swapped"),
            ({"part": "rotated", "kind": "complex", "arch": [1, 1], "basis": "Y"}, "spec-phase-gradient-sign"),
            ({"generic": "every shape"}, "generic-wrong-contract")]


def layout(module):
    """[(name, flat index, Atom)] in the order training writes gradients (named_parameters(), row-major)."""
    out = []
    for name, p in module.named_parameters():
        for k, x in enumerate(p._arr.reshape(-1)):
            out.append((name, k, alg._single_atom(x)))
    return out


def _d(expr, a):
    """d expr / d a; parameters held at their documented constant (phase aux bias == 0) have no atom: the
    contract values do not depend on them, the expected gradient entry is identically zero (C20's invariant)."""
    return ZERO if a is None else alg.diff(expr, a)


def run_config(ctx, cfg):
    if cfg.get("generic"):
        from contracts import gsets
        return gsets.run(ctx, "C03")
    from drivers import common as _DC
    _DC.VIA[0] = cfg.get("via")        # the object under contract is reached as a copy of another one (drivers/common.copied)
    _DC.SYM_ORIG[0] = True
    return {"energy-grad": _energy_grad, "gamma-pi-grad": _gamma_pi, "rotated": _rotated, "grouping": _grouping,
            "positive-api": _positive_api, "end-to-end": _e2e}[cfg["part"]](ctx, cfg)


def _DC_copied(obj):
    from drivers import common as _DC
    return _DC.copied(obj)


def _c(rows):
    return torch.tensor(rows, dtype=torch.double)


# ------------------------------------------------------------------ effective_energy_gradient
def _energy_grad(ctx, cfg):
    from qucumber.rbm import BinaryRBM, PurificationRBM
    canary = getattr(ctx, "canary", None)
    arch = cfg["arch"]
    rbm = _DC_copied(BinaryRBM(*arch, gpu=False) if cfg["rbm"] == "binary" else PurificationRBM(*arch, gpu=False))
    N.symbolize(rbm, "am")
    lay = layout(rbm)
    if canary == "spec-layout-biases-swapped":
        nv, nh = arch
        w = [l for l in lay if l[0] == "weights"]
        vb = [l for l in lay if l[0] == "visible_bias"]
        hb = [l for l in lay if l[0] == "hidden_bias"]
        lay = w + hb + vb
    nv = arch[0]
    vs = R.bits(nv)
    cls = type(rbm).__name__
    ctx.under_contract(cls + ".effective_energy_gradient", cls + ".prob_h_given_v")
    st.reset_logs()
    E = rbm.effective_energy(_c(vs))               # contract value (C01 / C02): exp(-E) == marginal
    g = rbm.effective_energy_gradient(_c(vs), reduce=False)
    ctx.holds("effective_energy_gradient/reduce=False/shape", tuple(g.shape) == (len(vs), len(lay)) and len(lay) == rbm.num_pars,
              "%s vs %s" % (tuple(g.shape), (len(vs), len(lay))))
    dE = [[alg.diff(E._arr[r], a) for (_n, _k, a) in lay] for r in range(len(vs))]
    for r in range(len(vs)):
        for k, (name, idx, a) in enumerate(lay):
            ctx.eq("effective_energy_gradient/entry == dE/d%s[%d][row=%d]" % (name, idx, r), g._arr[r, k], dE[r][k], z3_confirm=(r < 2))
    gs = rbm.effective_energy_gradient(_c(vs))     # reduce=True: sum over the batch
    ctx.holds("effective_energy_gradient/reduce=True/shape", tuple(gs.shape) == (len(lay),))
    for k, (name, idx, a) in enumerate(lay):
        ctx.eq("effective_energy_gradient/reduce=True == sum over rows[d%s[%d]]" % (name, idx), gs._arr[k], sum((dE[r][k] for r in range(len(vs))), ZERO), z3_confirm=False)
    sub = [len(vs) - 1, 0, len(vs) - 1]
    gsub = rbm.effective_energy_gradient(_c([vs[i] for i in sub]))
    for k in range(len(lay)):
        ctx.eq("effective_energy_gradient/reduce=True with repeated rows[%d]" % k, gsub._arr[k], sum((dE[r][k] for r in sub), ZERO), z3_confirm=False)
    g1 = rbm.effective_energy_gradient(_c(vs[-1]))
    ctx.holds("effective_energy_gradient/1-D/shape", tuple(g1.shape) == (len(lay),))
    for k in range(len(lay)):
        ctx.eq("effective_energy_gradient/1-D == gradient of that state[%d]" % k, g1._arr[k], dE[len(vs) - 1][k], z3_confirm=False)
    g1n = rbm.effective_energy_gradient(_c(vs[-1]), reduce=False)
    ctx.holds("effective_energy_gradient/1-D reduce=False/shape", tuple(g1n.shape) in ((1, len(lay)), (len(lay),)), str(tuple(g1n.shape)))
    ctx.frame("effective_energy_gradient/frame")


# ------------------------------------------------------------------ gamma_grad / pi_grad
def _gamma_pi(ctx, cfg):
    from drivers import common as DC
    nv, nh, na = cfg["arch"]
    state = DC.make_state("mixed", nv, nh, na)
    N.symbolize(state.rbm_am, "am")
    N.symbolize(state.rbm_ph, "ph", zero=("aux_bias",))      # documented precondition of the mixed state
    vs = R.bits(nv)
    D = len(vs)
    space = _c(vs)
    ctx.under_contract("PurificationRBM.gamma_grad", "DensityMatrix.pi_grad", "cplx.sigmoid", "PurificationRBM.mixing_term")
    st.reset_logs()
    for tag, rbm in (("am", state.rbm_am), ("ph", state.rbm_ph)):
        lay = layout(rbm)
        for eta in (+1, -1):
            G = rbm.gamma(space, space, eta=eta, expand=True)                # contract value (C02)
            gg = rbm.gamma_grad(space, space, eta=eta, expand=True)
            ctx.holds("gamma_grad/%s/expand-shape[eta=%d]" % (tag, eta), tuple(gg.shape) == (2, D, D, len(lay)), str(tuple(gg.shape)))
            for i in range(D):
                for j in range(D):
                    for k, (name, idx, a) in enumerate(lay):
                        ctx.eq("gamma_grad/%s/expand == dgamma/d%s[%d][eta=%d i=%d j=%d]" % (tag, name, idx, eta, i, j),
                               gg._arr[0, i, j, k] + I * gg._arr[1, i, j, k], _d(G._arr[i, j], a), z3_confirm=False)
            flip = torch.flip(space, [0])
            gp = rbm.gamma_grad(space, flip, eta=eta, expand=False)
            ctx.holds("gamma_grad/%s/paired-shape[eta=%d]" % (tag, eta), tuple(gp.shape) == (2, D, len(lay)), str(tuple(gp.shape)))
            for i in range(D):
                for k in range(len(lay)):
                    ctx.eq("gamma_grad/%s/paired agrees[eta=%d i=%d k=%d]" % (tag, eta, i, k), gp._arr[0, i, k] + I * gp._arr[1, i, k],
                           gg._arr[0, i, D - 1 - i, k] + I * gg._arr[1, i, D - 1 - i, k], z3_confirm=False)
            g1 = rbm.gamma_grad(space[0], space[D - 1], eta=eta, expand=False)
            ctx.holds("gamma_grad/%s/1-D-shape[eta=%d]" % (tag, eta), tuple(g1.shape) == (2, len(lay)), str(tuple(g1.shape)))
            for k in range(len(lay)):
                ctx.eq("gamma_grad/%s/1-D agrees[eta=%d k=%d]" % (tag, eta, k), g1._arr[0, k] + I * g1._arr[1, k], gg._arr[0, 0, D - 1, k] + I * gg._arr[1, 0, D - 1, k], z3_confirm=False)
    pi_ = state.pi(space, space, expand=True)                                # contract value (C02)
    for phase, tag, rbm in ((False, "am", state.rbm_am), (True, "ph", state.rbm_ph)):
        lay = layout(rbm)
        pg = state.pi_grad(space, space, phase=phase, expand=True)
        ctx.holds("pi_grad/%s/expand-shape" % tag, tuple(pg.shape) == (2, D, D, len(lay)), str(tuple(pg.shape)))
        for i in range(D):
            for j in range(D):
                z = pi_._arr[0, i, j] + I * pi_._arr[1, i, j]
                for k, (name, idx, a) in enumerate(lay):
                    ctx.eq("pi_grad/%s/expand == dpi/d%s[%d][i=%d j=%d]" % (tag, name, idx, i, j),
                           pg._arr[0, i, j, k] + I * pg._arr[1, i, j, k], _d(z, a), z3_confirm=False)
        flip = torch.flip(space, [0])
        pp = state.pi_grad(space, flip, phase=phase, expand=False)
        ctx.holds("pi_grad/%s/paired-shape" % tag, tuple(pp.shape) == (2, D, len(lay)), str(tuple(pp.shape)))
        for i in range(D):
            for k in range(len(lay)):
                ctx.eq("pi_grad/%s/paired agrees[i=%d k=%d]" % (tag, i, k), pp._arr[0, i, k] + I * pp._arr[1, i, k],
                       pg._arr[0, i, D - 1 - i, k] + I * pg._arr[1, i, D - 1 - i, k], z3_confirm=False)
    ctx.frame("gamma_grad/pi_grad/frame")


# ------------------------------------------------------------------ rotated_gradient
def _spec_state(state, kind, n):
    """Contract values of the state over the full basis: psi (pure) or rho (mixed)."""
    vs = R.bits(n)
    space = _c(vs)
    if kind == "mixed":
        r = state.rho(space, space)
        return None, r._arr[0] + r._arr[1] * I
    Ea = state.rbm_am.effective_energy(space)._arr
    if kind == "complex":
        Ep = state.rbm_ph.effective_energy(space)._arr
        psi = np.array([alg.exp(-Ea[k] / 2) * alg.cis(-Ep[k] / 2) for k in range(len(vs))], dtype=object)
    else:
        psi = np.array([alg.exp(-Ea[k] / 2) for k in range(len(vs))], dtype=object)
    return psi, None


def _rot_prob(psi, rho, Ud, k):
    if psi is not None:
        a = ZERO
        for c in range(len(psi)):
            if Ud[k, c].t:
                a = a + Ud[k, c] * psi[c]
        return alg.re(a * alg.conj(a))
    D = rho.shape[0]
    tot = ZERO
    for i in range(D):
        if not Ud[k, i].t:
            continue
        for j in range(D):
            if Ud[k, j].t:
                tot = tot + Ud[k, i] * rho[i, j] * alg.conj(Ud[k, j])
    return alg.re(tot)


def _rotated(ctx, cfg):
    from drivers import common as DC
    from qucumber.utils import unitaries
    canary = getattr(ctx, "canary", None)
    kind, arch, basis = cfg["kind"], cfg["arch"], cfg["basis"]
    n = arch[0]
    D = 2 ** n
    state = DC.make_state(kind, *arch)
    N.symbolize(state.rbm_am, "am")
    N.symbolize(state.rbm_ph, "ph")
    lays = [layout(state.rbm_am), layout(state.rbm_ph)]
    ctx.under_contract("%s.rotated_gradient" % type(state).__name__, "%s.am_grads" % type(state).__name__,
                       "%s.ph_grads" % type(state).__name__, "cplx.einsum", "cplx.inverse", "unitaries.rotate_psi_inner_prod" if kind == "complex" else "unitaries.rotate_rho_probs")
    st.reset_logs()
    psi, rho = _spec_state(state, kind, n)
    uc = {k: U.cdec(st._obj(v)) for k, v in unitaries.create_dict().items()}
    Ud = U.kron_dense([uc[b] for b in basis])
    space = _c(R.bits(n))
    eps = alg.to_P(1e-8)
    spec_rows = []
    for k in range(D):
        Pk = _rot_prob(psi, rho, Ud, k)
        den = alg.inv(Pk) if kind == "complex" else alg.inv(Pk + eps)
        row = []
        for ni, lay in enumerate(lays):
            sgn = -1 if not (canary == "spec-phase-gradient-sign" and ni == 1) else 1
            row.append([alg.diff(Pk, a) * den * sgn for (_n, _k, a) in lay])
        spec_rows.append(row)
    b_arr = np.array(list(basis))
    single = []
    for k in range(D):
        g = state.rotated_gradient(b_arr, space[k:k + 1])
        single.append(g)
        for ni, lay in enumerate(lays):
            ctx.holds("rotated_gradient/shape[net=%d row=%d]" % (ni, k), tuple(g[ni].shape) == (len(lay),), str(tuple(g[ni].shape)))
            for j, (name, idx, a) in enumerate(lay):
                ctx.eq("rotated_gradient/single row == -d log P_b(s)/d%s.%s[%d][row=%d]" % ("am" if ni == 0 else "ph", name, idx, k),
                       g[ni]._arr[j], spec_rows[k][ni][j], z3_confirm=False)
    order = [D - 1, 0, D - 1] if D > 1 else [0, 0]
    g = state.rotated_gradient(b_arr, space[order])
    for ni, lay in enumerate(lays):
        for j in range(len(lay)):
            # per-row values were each proved equal to the spec above; linearity over the batch is checked against them
            ctx.eq("rotated_gradient/batch == sum of per-row gradients[net=%d k=%d]" % (ni, j), g[ni]._arr[j],
                   sum((single[k][ni]._arr[j] for k in order), ZERO), z3_confirm=False)
    ctx.frame("rotated_gradient/frame")


# ------------------------------------------------------------------ grouping / positive phase / exact gradients (stubs)
def _grouping(ctx, cfg):
    from drivers import common as DC
    import random
    kind, n = cfg["kind"], cfg["n"]
    state = DC.make_state(kind, n, 1, 1)
    nets = state.networks
    npar = [getattr(state, net).num_pars for net in nets]
    ctx.under_contract("NeuralStateBase.gradient", "NeuralStateBase.positive_phase_gradients", "NeuralStateBase.compute_exact_gradients",
                       "%s.gradient" % type(state).__name__)
    ctx.stub("rotated_gradient", "effective_energy_gradient", "probability")
    rnd = random.Random(5 + n)

    def term(net, basis, row, k):
        return alg.uf("g%d[%s|%s|%d]" % (net, basis, "".join(str(int(x)) for x in row), k))

    def eeg_stub(v, reduce=True):
        vv = v.reshape(-1, n).tolist()
        if reduce:
            out = np.empty((npar[0],), dtype=object)
            for k in range(npar[0]):
                out[k] = sum((term(0, "Z" * n, r, k) for r in vv), ZERO)
            return st.SymTensor(out)
        out = np.empty((len(vv), npar[0]), dtype=object)
        for i, r in enumerate(vv):
            for k in range(npar[0]):
                out[i, k] = term(0, "Z" * n, r, k)
        return st.SymTensor(out)

    def rot_stub(basis, sample):
        b = "".join(basis)
        rows = sample.reshape(-1, n).tolist()
        res = []
        for net in range(2):
            out = np.empty((npar[net],), dtype=object)
            for k in range(npar[net]):
                out[k] = sum((term(net, b, r, k) for r in rows), ZERO)
            res.append(st.SymTensor(out))
        return res
    all_strings = ["".join(s) for s in itertools.product("XYZ", repeat=n)]
    batches = []
    if kind == "positive":
        for B in (1, 2, 4):
            batches.append(([tuple(rnd.randint(0, 1) for _ in range(n)) for _ in range(B)], None))
    else:
        pool = all_strings if n <= 3 else rnd.sample(all_strings, 12) + ["Z" * n]
        for rep in range(2 if ctx.tier == "quick" else 6):
            B = rnd.choice((1, 2, 3, 4))
            rows = [tuple(rnd.randint(0, 1) for _ in range(n)) for _ in range(B)]
            bs = [rnd.choice(pool) for _ in range(B)]
            if rep == 0 and B > 1:
                bs[0] = "Z" * n
                bs[1] = bs[1] if bs[1] != "Z" * n else all_strings[0]
            if rep == 1 and B > 1:
                bs[1] = bs[0]
                rows[1] = rows[0]
            batches.append((rows, bs))
        batches.append(([tuple(1 for _ in range(n))] * 2, ["Z" * n, "Z" * n]))
        # one basis in NON-adjacent rows, interleaved with other bases and with the reference basis (a batch handed to
        # gradient() directly need not be grouped by basis)
        nz = [b for b in pool if b != "Z" * n]
        b1, b2 = nz[0], nz[-1]
        rows5 = [tuple((r >> i) & 1 for i in range(n)) for r in (1, 0, 2 ** n - 1, 1, 0)]
        batches.append((rows5, [b1, "Z" * n, b1, b2, b1]))
        batches.append((rows5[:3], [b2, b1, b2]))
        if n <= 2:
            # every basis string once, in one batch
            batches.append(([tuple(rnd.randint(0, 1) for _ in range(n)) for _ in all_strings], list(all_strings)))

    def want(rows, bs, net):
        out = []
        for k in range(npar[net]):
            tot = ZERO
            for i, r in enumerate(rows):
                b = bs[i] if bs is not None else "Z" * n
                if net == 1 and set(b) == {"Z"}:
                    continue              # all-Z rows contribute nothing to the phase network
                tot = tot + term(net, b, [float(x) for x in r], k)
            out.append(tot)
        return out

    def check(tag, got, rows, bs, scale=1):
        for net in range(len(nets)):
            gv = st._obj(got[net])
            ctx.holds("%s/shape[net=%d]" % (tag, net), tuple(gv.shape) == (npar[net],), str(tuple(gv.shape)))
            w = want(rows, bs, net)
            for k in range(npar[net]):
                ctx.eq("%s == sum of per-row gradients[net=%d k=%d]" % (tag, net, k), gv[k] * scale, w[k], z3_confirm=False)
    with N.stubbed(state.rbm_am, "effective_energy_gradient", eeg_stub), N.stubbed(state, "rotated_gradient", rot_stub):
        for bi, (rows, bs) in enumerate(batches):
            samples = _c(rows)
            bases = np.array([list(b) for b in bs]) if bs is not None else None
            keep = samples.clone()
            tag = "gradient[batch=%d %s]" % (bi, ",".join(bs) if bs else "no-bases")
            g = state.gradient(samples, bases) if kind != "positive" else state.gradient(samples)
            check(tag, g, rows, bs)
            pp = state.positive_phase_gradients(samples, bases) if kind != "positive" else state.positive_phase_gradients(samples)
            check("positive_phase_gradients == gradient / B " + tag, pp, rows, bs, scale=len(rows))
            if len(rows) > 1:
                perm = list(range(len(rows)))
                rnd.shuffle(perm)
                g2 = state.gradient(samples[perm], bases[perm] if bases is not None else None) if kind != "positive" else state.gradient(samples[perm])
                check("gradient under row permutation " + tag, g2, rows, bs)
                # split into two sub-batches: gradients add
                h = len(rows) // 2
                ga = state.gradient(samples[:h], bases[:h] if bases is not None else None) if kind != "positive" else state.gradient(samples[:h])
                gb = state.gradient(samples[h:], bases[h:] if bases is not None else None) if kind != "positive" else state.gradient(samples[h:])
                summed = [st._obj(ga[i]) + st._obj(gb[i]) for i in range(len(nets))]
                check("gradient of a split batch adds up " + tag, summed, rows, bs)
            if bs is not None:
                g1 = state.gradient(samples[0], np.array(list(bs[0])))           # 1-D single-sample form
                check("gradient/1-D form " + tag, g1, rows[:1], bs[:1])
                for form, bb in (("list", list(bs[0])), ("tuple", tuple(bs[0])), ("str", "".join(bs[0]))):
                    check("gradient/1-D form, bases as %s " % form + tag, state.gradient(samples[0], bb), rows[:1], bs[:1])
            else:
                g1 = state.gradient(samples[0])
                check("gradient/1-D form " + tag, g1, rows[:1], None)
            ctx.holds("samples-not-modified " + tag, torch.equal(samples, keep))
        # compute_exact_gradients: positive phase minus the exact model average
        D = 2 ** n
        space = _c(R.bits(n))
        p = [alg.uf("p[%d]" % k, "pos") for k in range(D)]
        rows, bs = batches[0]
        samples = _c(rows)
        bases = np.array([list(b) for b in bs]) if bs is not None else None

        def prob_stub(v, Z=1.0):
            idx = [U.index_of(r) for r in v.reshape(-1, n).tolist()]
            return st.SymTensor(np.array([p[i] for i in idx], dtype=object)) / Z
        with N.stubbed(state, "probability", prob_stub):
            ge = state.compute_exact_gradients(samples, space, bases) if kind != "positive" else state.compute_exact_gradients(samples, space)
        Zs = sum(p, ZERO)
        w0 = want(rows, bs, 0)
        for k in range(npar[0]):
            model = ZERO
            for s in range(D):
                model = model + p[s] * term(0, "Z" * n, [float(x) for x in R.bits(n)[s]], k)
            ctx.eq("compute_exact_gradients/amplitude == positive - sum_s (p_s/Z) dE_s[k=%d]" % k,
                   (st._obj(ge[0])[k] - w0[k] / len(rows)) * Zs, -model, z3_confirm=False)
        if len(nets) > 1:
            w1 = want(rows, bs, 1)
            for k in range(npar[1]):
                ctx.eq("compute_exact_gradients/phase == positive phase only[k=%d]" % k, st._obj(ge[1])[k] * len(rows), w1[k], z3_confirm=False)


# ------------------------------------------------------------------ PositiveWaveFunction public methods
def _positive_api(ctx, cfg):
    from drivers import common as DC
    state = DC.make_state("positive", 2, 2)
    N.symbolize(state.rbm_am, "am")
    space = _c(R.bits(2))
    samples = space[[1, 3, 1]]
    ctx.under_contract("PositiveWaveFunction.gradient", "PositiveWaveFunction.positive_phase_gradients",
                       "PositiveWaveFunction.compute_exact_grads", "PositiveWaveFunction.compute_batch_gradients")
    ref = state.compute_exact_gradients(samples, space)
    for name, call in (("gradient(v, ignored...)", lambda: state.gradient(samples, "ignored", bases="ignored")),
                       ("positive_phase_gradients(v, ignored...)", lambda: state.positive_phase_gradients(samples, "ignored")),
                       ("compute_exact_grads(samples, space)", lambda: state.compute_exact_grads(samples, space)),
                       ("compute_exact_grads(samples, space, ignored...)", lambda: state.compute_exact_grads(samples, space, "ignored"))):
        try:
            r = call()
            ok, why = True, ""
        except (AttributeError, TypeError) as e:
            r, ok, why = None, False, "%s: %s" % (type(e).__name__, e)
        ctx.holds("positive/%s is callable" % name, ok, why)
        if ok and "exact" in name:
            ctx.eq_arrays("positive/%s agrees with compute_exact_gradients" % name, r[0], ref[0], z3_confirm=False)
    g = state.gradient(samples)
    ctx.holds("positive/gradient returns one vector per network", isinstance(g, list) and len(g) == 1)
    ctx.eq_arrays("positive/gradient == effective_energy_gradient", g[0], state.rbm_am.effective_energy_gradient(samples), z3_confirm=False)


# ------------------------------------------------------------------ end to end: compute_exact_gradients == d NLL
def _e2e(ctx, cfg):
    from drivers import common as DC
    from qucumber.utils import unitaries
    kind, arch = cfg["kind"], cfg["arch"]
    n = arch[0]
    D = 2 ** n
    state = DC.make_state(kind, *arch)
    N.symbolize(state.rbm_am, "am")
    if kind != "positive":
        N.symbolize(state.rbm_ph, "ph")
    lays = [layout(getattr(state, net)) for net in state.networks]
    space = _c(R.bits(n))
    psi, rho = _spec_state(state, kind, n)
    uc = {k: U.cdec(st._obj(v)) for k, v in unitaries.create_dict().items()}
    if kind == "positive":
        rows, bs = [R.bits(n)[-1], R.bits(n)[0], R.bits(n)[-1]], None
    else:
        strings = ["".join(s) for s in itertools.product("XYZ", repeat=n)]
        bs = [strings[0], strings[-1], strings[len(strings) // 2], strings[1]][: 3 if n > 1 else 4]
        rows = [R.bits(n)[(i * 3 + 1) % D] for i in range(len(bs))]
    samples = _c(rows)
    bases = np.array([list(b) for b in bs]) if bs is not None else None
    ctx.under_contract("NeuralStateBase.compute_exact_gradients")
    got = state.compute_exact_gradients(samples, space, bases) if kind != "positive" else state.compute_exact_gradients(samples, space)
    # NLL = -(1/B) sum_m log(P_{b_m}(s_m)) + log Z  (mixed: the library's 1e-8 regularised form of d log P)
    eps = alg.to_P(1e-8)
    pz = [(_rot_prob(psi, rho, np.array([[ONE if a == b else ZERO for b in range(D)] for a in range(D)], dtype=object), k)) for k in range(D)]
    Z = sum(pz, ZERO)
    for ni, lay in enumerate(lays):
        for j, (name, idx, a) in enumerate(lay):
            tot = ZERO
            for m, r in enumerate(rows):
                b = bs[m] if bs is not None else "Z" * n
                Ud = U.kron_dense([uc[c] for c in b])
                Pm = _rot_prob(psi, rho, Ud, U.index_of(r))
                if set(b) == {"Z"}:
                    tot = tot - alg.diff(Pm, a) * alg.inv(Pm)
                elif kind == "mixed":
                    tot = tot - alg.diff(Pm, a) * alg.inv(Pm + eps)
                else:
                    tot = tot - alg.diff(Pm, a) * alg.inv(Pm)
            want = tot / len(rows) + alg.diff(Z, a) * alg.inv(Z)
            ctx.eq("lemma/compute_exact_gradients == d NLL / d%s.%s[%d]" % ("am" if ni == 0 else "ph", name, idx), st._obj(got[ni])[j], want, z3_confirm=False)
    # Z depends on the amplitude network only
    ctx.holds("lemma/normalisation is independent of the phase network", all(nm.startswith("am.") for nm in alg.free_names(Z)))
    ctx.frame("compute_exact_gradients/frame")


def replay(o):
    if o["cfg"].get("generic"):
        from contracts import gsets
        return gsets.replay("C03", o)
    from drivers import C03 as D
    return D.replay(o["cfg"], (o.get("witness") or {}).get("env") or {}, o.get("short") or "")
